/* Contracts for the WebSocket frame codec of src/supplemental/websocket/websocket.c.
 * Every postcondition is taken from RFC 6455 (see spec.h) and the nng option
 * documentation, not from the code.  "Nothing else changes" is carried by the
 * assigns clauses. */
#ifndef VP_WSFRAME_CONTRACTS_H
#define VP_WSFRAME_CONTRACTS_H
/* clang-format off */
#define RV __CPROVER_return_value
#define OLD(e) __CPROVER_old(e)
#define WSF_ALLOC_GHOSTS g_alloc_ok, g_free_calls
#define WSF_RAND_GHOSTS g_rn
#define WSF_FIN_GHOSTS g_fn
#define WSF_CTL_GHOSTS g_cl.ctl_calls, g_cl.ctl_op, g_cl.ctl_len /* fields only: ws_msg_init_control is replaced inside callers that also watch g_cl.close_* */
#define WSF_CLOSE_GHOSTS g_cl
#define WSF_TX_GHOSTS g_tx
#define WSF_RD_GHOSTS g_rd
#define WSF_SNAP_GHOSTS g_sn
#define WSF_MSG_GHOSTS g_ms
#define WSF_IOV_OF(a) (a).a_nio, __CPROVER_object_upto(&(a).a_iov[0], sizeof((a).a_iov))
#define WSF_LISTS_PRE(w) (g_recvq_addr == &(w)->recvq && g_rxq_addr == &(w)->rxq && g_txq_addr == &(w)->txq)
#define WSF_BE32(p) (((uint32_t) (p)[0] << 24) | ((uint32_t) (p)[1] << 16) | ((uint32_t) (p)[2] << 8) | (uint32_t) (p)[3])
#define WSF_FQ_SAME(q) ((q).n == OLD((q).n) && ((q).n < 1 || (q).item[0] == OLD((q).item[0])) && ((q).n < 2 || (q).item[1] == OLD((q).item[1])) && ((q).n < 3 || (q).item[2] == OLD((q).item[2])))
/* transmit queue model: n == 0 <=> no head */
#define WSF_TXQ_OK ((g_txq.n == 0) == (g_txq.head == NULL))
#define WSF_TXQ_SAME (g_txq.n == OLD(g_txq.n) && g_txq.head == OLD(g_txq.head))
/* the ghost pair (g_k, g_b) speaks about the buffer handed to ws_apply_mask in
 * mode WSF_EQ_APPLY (per unit: the mode of the caller under contract) */
#ifndef WSF_EQ_APPLY
#define WSF_EQ_APPLY WSF_EQ_CTL
#endif

/* ---- payload masking (RFC 6455 5.3) -- used for REPLACEMENT only ---------
 * Same statement as the contract of module wsmask (byte i is XORed with
 * mask[i mod 4], nothing outside the payload is written); the pointer
 * predicates are w_ok/r_ok instead of is_fresh because callers keep mask and
 * short payloads inside one frame object.  NOT proven here (wsmask: cbmc runs
 * out of memory): listed under "assumes". */
static void ws_apply_mask(uint8_t *buf, size_t len, const uint8_t mask[4])
__CPROVER_requires(len == 0 || __CPROVER_w_ok(buf, len))
__CPROVER_requires(__CPROVER_r_ok(mask, 4))
__CPROVER_requires((g_eq == WSF_EQ_APPLY && g_k < len) ==> g_b == buf[g_k])
__CPROVER_assigns(len > 0: __CPROVER_object_upto(buf, len))
__CPROVER_ensures((g_eq == WSF_EQ_APPLY && g_k < len) ==> buf[g_k] == (uint8_t) (g_b ^ mask[g_k & 3]))
;

/* ---- 3. control frame construction (RFC 6455 5.5) ---------------------- */
#define CF (*framep)
#define CFH(i) ((*framep)->head[i])
static int ws_msg_init_control(ws_frame **framep, nni_ws *ws, uint8_t op, const uint8_t *buf, size_t len)
__CPROVER_requires(__CPROVER_is_fresh(framep, sizeof(*framep)) && __CPROVER_is_fresh(ws, sizeof(*ws)))
__CPROVER_requires(op == WS_OP_CLOSE || op == WS_OP_PING || op == WS_OP_PONG)
/* the payload to send; an empty one may be given as NULL */
__CPROVER_requires(len > 125 || (len == 0 && buf == NULL) || __CPROVER_is_fresh(buf, len == 0 ? 1 : len))
/* ghost equation: g_b is the payload byte at index g_k */
__CPROVER_requires((g_eq == WSF_EQ_CTL && len <= 125 && g_k < len) ==> g_b == buf[g_k])
__CPROVER_assigns(*framep, WSF_ALLOC_GHOSTS, WSF_RAND_GHOSTS, WSF_CTL_GHOSTS)
__CPROVER_ensures(g_ctl_calls == OLD(g_ctl_calls) + 1 && g_ctl_op == op && g_ctl_len == len)
/* more than 125 bytes can not be sent in a control frame: refused, nothing built */
__CPROVER_ensures(len > 125 ==> (RV == NNG_EINVAL && g_alloc_ok == OLD(g_alloc_ok)))
__CPROVER_ensures(len <= 125 ==> (RV == 0 || RV == NNG_ENOMEM))
__CPROVER_ensures(RV != 0 ==> g_alloc_ok == OLD(g_alloc_ok))
__CPROVER_ensures(g_free_calls == OLD(g_free_calls))
/* built: one fresh frame (released as a plain struct: no separate payload buffer) */
__CPROVER_ensures(RV == 0 ==> (__CPROVER_is_fresh(CF, sizeof(ws_frame)) && g_alloc_ok == OLD(g_alloc_ok) + 1 && CF->asize == 0 && CF->aio == NULL && CF->buf == &CF->sdata[0]))
/* FIN set, RSV clear, the opcode asked for; length inline (<= 125) */
__CPROVER_ensures(RV == 0 ==> (CF->head[0] == (uint8_t) (0x80u | op) && WS_LEN7(CFH) == len && CF->len == len && CF->final && CF->op == (enum ws_type) op))
/* masked iff we are the client; header length accordingly */
__CPROVER_ensures(RV == 0 ==> (WS_MASKED(CFH) == !ws->server && CF->masked == !ws->server && CF->hlen == WS_TX_HLEN(len, !ws->server)))
/* client: the 4 mask bytes follow the length, they are a fresh random word, and the payload is XORed with them */
__CPROVER_ensures((RV == 0 && !ws->server) ==> (g_rand_calls == OLD(g_rand_calls) + 1 && WSF_BE32(CF->mask) == g_rand_last && CF->head[2] == CF->mask[0] && CF->head[3] == CF->mask[1] && CF->head[4] == CF->mask[2] && CF->head[5] == CF->mask[3]))
__CPROVER_ensures((RV == 0 && !ws->server && g_eq == WSF_EQ_CTL && g_k < len) ==> CF->sdata[g_k] == (uint8_t) (g_b ^ CF->mask[g_k & 3]))
/* server: payload as given */
__CPROVER_ensures((RV == 0 && ws->server && g_eq == WSF_EQ_CTL && g_k < len) ==> CF->sdata[g_k] == g_b)
__CPROVER_ensures((RV != 0 || ws->server) ==> g_rand_calls == OLD(g_rand_calls))
;
#undef CF

/* ---- 2. sending side: frame the next piece of a message (RFC 6455 5.2, 5.4) ----
 * The data to send is the scatter/gather vector of frame->aio (what is left of
 * the message); ws->fragsize (NNG_OPT_WS_SENDMAXFRAME, 0 = no limit) caps the
 * payload of one frame.  Message mode: the message continues in further frames
 * (FIN clear, later frames CONT); stream mode: every frame is a message of its
 * own, the submitter sees a partial write. */
#define PT_L(A, i) ((i) < (A)->a_nio ? (A)->a_iov[i].iov_len : (size_t) 0)
#define PT_P1(A) (PT_L(A, 0))
#define PT_P2(A) (PT_P1(A) + PT_L(A, 1))
#define PT_P3(A) (PT_P2(A) + PT_L(A, 2))
#define PT_P4(A) (PT_P3(A) + PT_L(A, 3))
#define PT_P5(A) (PT_P4(A) + PT_L(A, 4))
#define PT_P6(A) (PT_P5(A) + PT_L(A, 5))
#define PT_P7(A) (PT_P6(A) + PT_L(A, 6))
#define PT_TOTAL(A) (PT_P7(A) + PT_L(A, 7))
#define PT_ENT_PRE(A, i) ((i) >= (A)->a_nio || ((A)->a_iov[i].iov_len <= (SIZE_MAX >> 4) && __CPROVER_is_fresh((A)->a_iov[i].iov_buf, (A)->a_iov[i].iov_len ? (A)->a_iov[i].iov_len : 1)))
/* ghost equation for entry i, which starts at offset p of the concatenation */
#define PT_ENT_EQ(A, i, p) (((i) < (A)->a_nio && g_k >= (p) && g_k - (p) < (A)->a_iov[i].iov_len) ==> g_b == ((const uint8_t *) (A)->a_iov[i].iov_buf)[g_k - (p)])
/* (the total is named by the ghost g_u64, tied to the vector by a precondition equation) */
#define PT_FRAG(A) (ws->fragsize > 0 && g_u64 > ws->fragsize)
#define PT_LEN(A) (PT_FRAG(A) ? ws->fragsize : (size_t) g_u64)
#define PT_FINAL(A) (!PT_FRAG(A) || ws->isstream)
#define PT_OPC(A) ((A)->a_count == 0 ? (ws->send_text ? WS_OP_TEXT : WS_OP_BIN) : WS_OP_CONT)
#define FH(i) (frame->head[i])
#define OA OLD(frame->aio)
static int ws_frame_prep_tx(nni_ws *ws, ws_frame *frame)
__CPROVER_requires(__CPROVER_is_fresh(ws, sizeof(*ws)) && __CPROVER_is_fresh(frame, sizeof(*frame)) && __CPROVER_is_fresh(frame->aio, sizeof(nni_aio)))
/* the vector: at most NNI_AIO_MAX_IOV entries (nni_aio_set_iov), every entry points to a buffer (also when its length is 0), total fits size_t */
__CPROVER_requires(frame->aio->a_nio <= NNI_AIO_MAX_IOV && PT_ENT_PRE(frame->aio, 0) && PT_ENT_PRE(frame->aio, 1) && PT_ENT_PRE(frame->aio, 2) && PT_ENT_PRE(frame->aio, 3) && PT_ENT_PRE(frame->aio, 4) && PT_ENT_PRE(frame->aio, 5) && PT_ENT_PRE(frame->aio, 6) && PT_ENT_PRE(frame->aio, 7))
__CPROVER_requires(ws->fragsize <= NNI_MAXSZ && g_u64 == PT_TOTAL(frame->aio))
/* stream mode: one frame per submitted write */
__CPROVER_requires(ws->isstream ==> frame->aio->a_count == 0)
/* payload buffer of the frame: none yet (new frame) or the block of asize bytes obtained for the previous piece */
__CPROVER_requires((frame->asize == 0 && frame->adata == NULL && frame->buf == NULL) || (frame->asize > 0 && __CPROVER_is_fresh(frame->adata, frame->asize) && __CPROVER_pointer_in_range_dfcc(frame->adata, frame->buf, frame->adata)))
#ifdef WSF_TX_CONTENT
/* (content unit) the vector has at most 2 entries: what ws_str_send builds in message mode (message header, body) */
__CPROVER_requires(frame->aio->a_nio <= 2)
/* ghost equation: g_b is byte g_k of the concatenation of the vector entries */
__CPROVER_requires(g_eq == WSF_EQ_TX ==> (PT_ENT_EQ(frame->aio, 0, 0) && PT_ENT_EQ(frame->aio, 1, PT_P1(frame->aio))))
#else
/* (framing unit, any vector) nothing is claimed about the payload bytes */
__CPROVER_requires(g_eq != WSF_EQ_TX)
#endif
__CPROVER_assigns(__CPROVER_object_whole(frame), WSF_ALLOC_GHOSTS, WSF_RAND_GHOSTS; frame->asize > 0: __CPROVER_object_whole(frame->adata))
__CPROVER_frees(frame->adata)
__CPROVER_ensures(RV == 0 || RV == NNG_ENOMEM)
__CPROVER_ensures(frame->aio == OLD(frame->aio))
/* out of memory: the frame owns no payload buffer any more (it can be released as a plain struct) */
__CPROVER_ensures(RV != 0 ==> (frame->asize == 0 && frame->adata == NULL && g_alloc_ok == OLD(g_alloc_ok) && PT_LEN(OA) > OLD(frame->asize)))
/* payload length = what is left, capped by the fragment size */
__CPROVER_ensures(RV == 0 ==> (frame->len == PT_LEN(OA) && WS_PAYLEN(FH) == PT_LEN(OA) && !WS_LEN_SHORT(FH)))
/* FIN iff nothing remains (message mode) / always (stream mode); RSV clear; opcode: TEXT/BINARY for the first frame of a message, CONT afterwards */
__CPROVER_ensures(RV == 0 ==> (WS_FIN(FH) == PT_FINAL(OA) && frame->final == PT_FINAL(OA) && WS_RSV(FH) == 0 && WS_OPC(FH) == PT_OPC(OA) && (unsigned) frame->op == PT_OPC(OA)))
/* minimal length encoding */
__CPROVER_ensures(RV == 0 ==> (WS_LEN7(FH) == WS_TX_LEN7(PT_LEN(OA))))
/* MASK bit and the 4 mask bytes present iff we are the client */
__CPROVER_ensures(RV == 0 ==> (WS_MASKED(FH) == !ws->server && frame->masked == !ws->server && frame->hlen == WS_TX_HLEN(PT_LEN(OA), !ws->server) && frame->hlen == WS_HLEN(FH)))
__CPROVER_ensures((RV == 0 && !ws->server) ==> (g_rand_calls == OLD(g_rand_calls) + 1 && WSF_BE32(frame->mask) == g_rand_last && frame->head[frame->hlen - 4] == frame->mask[0] && frame->head[frame->hlen - 3] == frame->mask[1] && frame->head[frame->hlen - 2] == frame->mask[2] && frame->head[frame->hlen - 1] == frame->mask[3]))
__CPROVER_ensures((RV != 0 || ws->server) ==> g_rand_calls == OLD(g_rand_calls))
/* the payload buffer: the old block when it is big enough, else a new block of exactly the payload size (old one released) */
__CPROVER_ensures((RV == 0 && PT_LEN(OA) > 0 && OLD(frame->asize) >= PT_LEN(OA)) ==> (frame->asize == OLD(frame->asize) && frame->adata == OLD(frame->adata) && frame->buf == frame->adata && g_alloc_ok == OLD(g_alloc_ok) && g_free_calls == OLD(g_free_calls)))
__CPROVER_ensures((RV == 0 && PT_LEN(OA) > 0 && OLD(frame->asize) < PT_LEN(OA)) ==> (frame->asize == PT_LEN(OA) && __CPROVER_is_fresh(frame->adata, PT_LEN(OA)) && frame->buf == frame->adata && g_alloc_ok == OLD(g_alloc_ok) + 1 && g_free_calls == OLD(g_free_calls) + (OLD(frame->asize) > 0 ? 1 : 0)))
#ifdef WSF_TX_CONTENT
/* payload = the first len bytes of the data, XORed with the mask on the client (5.3) */
__CPROVER_ensures((RV == 0 && g_eq == WSF_EQ_TX && g_k < PT_LEN(OA)) ==> frame->buf[g_k] == (uint8_t) (ws->server ? g_b : (g_b ^ frame->mask[g_k & 3])))
#endif
;

/* ---- fail / close the connection (RFC 6455 7.1.2, 7.1.7) ---------------- */
/* a well-formed CLOSE frame carrying the 2-byte status code (g_b = code byte g_k) */
#define CLF_H(f) (f)->head
#define WSF_IS_CLOSE_FRAME(f, w) ((f)->head[0] == 0x88u && ((f)->head[1] & 0x7fu) == 2 && (((f)->head[1] & 0x80u) != 0) == !(w)->server && (f)->len == 2 && (f)->masked == !(w)->server && (f)->hlen == ((w)->server ? 2u : 6u) && (f)->buf == &(f)->sdata[0] && (f)->asize == 0 && (f)->aio == NULL && (f)->op == WS_CLOSE && \
	((g_eq == WSF_EQ_CTL && g_k < 2) ==> (f)->sdata[g_k] == (uint8_t) (g_b ^ ((w)->server ? 0 : (f)->mask[g_k & 3]))))
#define CL_DO (!OLD(ws->closed) && ws->ready)
#define CL_NOMEM (CL_DO && g_alloc_ok == OLD(g_alloc_ok))
#define CL_REFUSED (CL_DO && g_alloc_ok != OLD(g_alloc_ok) && !g_aio_start_ok)
#define CL_SENT (CL_DO && g_alloc_ok != OLD(g_alloc_ok) && g_aio_start_ok)
static void ws_close(nni_ws *ws, uint16_t code)
__CPROVER_requires(__CPROVER_is_fresh(ws, sizeof(*ws)) && WSF_LISTS_PRE(ws) && WSF_Q_OK(g_recvq))
__CPROVER_requires(WSF_TXQ_OK)
#ifndef WSF_CLOSE_SUMMARY
/* environment invariant of the transmit queue: its first member is a real frame (stated only where the
 * contract is ENFORCED; where ws_close is replaced the invariant is not re-checked: see "assumes") */
__CPROVER_requires(g_txq.n == 0 || __CPROVER_is_fresh(g_txq.head, sizeof(ws_frame)))
#endif
/* ghost equation: g_b is byte g_k of the big-endian status code */
__CPROVER_requires(g_eq == WSF_EQ_CTL ==> ((g_k == 0 ==> g_b == (uint8_t) (code >> 8)) && (g_k == 1 ==> g_b == (uint8_t) code)))
__CPROVER_assigns(g_recvq, WSF_FIN_GHOSTS, WSF_CLOSE_GHOSTS;
	!ws->closed: WSF_TX_GHOSTS;
	!ws->closed && ws->ready: ws->closed, ws->wclose, WSF_ALLOC_GHOSTS, WSF_RAND_GHOSTS, ws->txframe, WSF_IOV_OF(ws->txaio))
/* not (established and not yet closing): no close frame is built */
__CPROVER_ensures(!CL_DO ==> (g_ctl_calls == OLD(g_ctl_calls) && g_ctl_op == OLD(g_ctl_op) && g_ctl_len == OLD(g_ctl_len)))
__CPROVER_ensures(g_close_calls == OLD(g_close_calls) + 1 && g_close_code == code && WSF_TXQ_OK && WSF_Q_OK(g_recvq))
/* every waiting receiver is refused, once each */
__CPROVER_ensures(g_recvq.n == 0 && g_fin_calls == OLD(g_fin_calls) + OLD(g_recvq.n) + (CL_NOMEM ? 1 : 0))
__CPROVER_ensures((OLD(g_recvq.n) > 0 && !CL_NOMEM) ==> g_fin_last_rv == NNG_ECLOSED)
/* before the handshake is complete there is nothing to say to the peer: only the negotiation is aborted */
__CPROVER_ensures((!OLD(ws->closed) && !ws->ready) ==> (!ws->closed && g_aio_close_calls == OLD(g_aio_close_calls) + 2 && WSF_TXQ_SAME && g_wr_calls == OLD(g_wr_calls)))
/* established and not yet closing: closing now, and ONE close frame is built */
__CPROVER_ensures(CL_DO ==> (ws->closed && g_aio_close_calls == OLD(g_aio_close_calls) + 2 && g_ctl_calls == OLD(g_ctl_calls) + 1 && g_ctl_op == WS_OP_CLOSE && g_ctl_len == 2))
/* at most one allocation: the close frame */
__CPROVER_ensures(g_alloc_ok == OLD(g_alloc_ok) || (CL_DO && g_alloc_ok == OLD(g_alloc_ok) + 1))
__CPROVER_ensures(CL_NOMEM ==> (!ws->wclose && g_fin_last == &ws->closeaio && g_fin_last_rv == NNG_ENOMEM && WSF_TXQ_SAME && g_wr_calls == OLD(g_wr_calls) && g_free_calls == OLD(g_free_calls)))
__CPROVER_ensures(CL_REFUSED ==> (!ws->wclose && g_free_calls == OLD(g_free_calls) + 1 && WSF_TXQ_SAME && g_wr_calls == OLD(g_wr_calls)))
__CPROVER_ensures(CL_SENT ==> (ws->wclose && g_start_calls == OLD(g_start_calls) + 1 && g_free_calls == OLD(g_free_calls)))
#ifndef WSF_CLOSE_SUMMARY /* units that REPLACE ws_close use the contract without these three clauses (a weakening of the enforced text) */
/* transmitter idle: the close frame goes out now (header, then the 2 payload bytes) */
__CPROVER_ensures((CL_SENT && OLD(ws->txframe) == NULL) ==> (__CPROVER_is_fresh(ws->txframe, sizeof(ws_frame)) && WSF_IS_CLOSE_FRAME(ws->txframe, ws) && WSF_TXQ_SAME && g_wr_calls == OLD(g_wr_calls) + 1 && g_wr_aio == &ws->txaio && g_wr_http == ws->http))
__CPROVER_ensures((CL_SENT && OLD(ws->txframe) == NULL) ==> (ws->txaio.a_nio == 2 && ws->txaio.a_iov[0].iov_buf == (void *) &ws->txframe->head[0] && ws->txaio.a_iov[0].iov_len == ws->txframe->hlen && ws->txaio.a_iov[1].iov_buf == (void *) &ws->txframe->sdata[0] && ws->txaio.a_iov[1].iov_len == 2))
/* transmitter busy: the close frame is next in line (ahead of everything queued) */
__CPROVER_ensures((CL_SENT && OLD(ws->txframe) != NULL) ==> (__CPROVER_is_fresh(g_txq.head, sizeof(ws_frame)) && WSF_IS_CLOSE_FRAME(g_txq.head, ws) && g_txq.n == OLD(g_txq.n) + 1 && g_txq.next == OLD(g_txq.head) && ws->txframe == OLD(ws->txframe) && g_wr_calls == OLD(g_wr_calls)))
#endif
;

/* ---- arm the read of the next frame header ------------------------------ */
/* a frame as ws_start_read leaves it: nothing decoded yet */
#define WSF_HEAD_INV(f) ((f)->hlen == 0 && (f)->len == 0 && (f)->buf == NULL && (f)->asize == 0 && (f)->adata == NULL && (f)->aio == NULL)
#define SR_IDLE (OLD(ws->rxframe) != NULL || OLD(ws->closed) || (OLD(g_recvq.n) == 0 && OLD(g_rxq.n) > 0))
static void ws_start_read(nni_ws *ws)
__CPROVER_requires(__CPROVER_is_fresh(ws, sizeof(*ws)) && WSF_LISTS_PRE(ws) && WSF_Q_OK(g_recvq))
__CPROVER_requires(ws->ready && WSF_TXQ_OK && g_eq != WSF_EQ_CTL)
__CPROVER_assigns(ws->rxframe == NULL && !ws->closed && !(g_recvq.n == 0 && g_rxq.n > 0):
	ws->rxframe, WSF_IOV_OF(ws->rxaio), WSF_RD_GHOSTS,
	g_recvq, WSF_FIN_GHOSTS, WSF_CLOSE_GHOSTS, WSF_TX_GHOSTS,
	ws->closed, ws->wclose, WSF_ALLOC_GHOSTS, WSF_RAND_GHOSTS, ws->txframe, WSF_IOV_OF(ws->txaio))
/* a read is already in flight, the connection is closing, or a complete frame waits with nobody to take it: nothing happens (assigns clause) */
/* otherwise a read of exactly the first 2 header bytes into a new frame is armed */
__CPROVER_ensures((!SR_IDLE && ws->rxframe != NULL) ==> (__CPROVER_is_fresh(ws->rxframe, sizeof(ws_frame)) && WSF_HEAD_INV(ws->rxframe) && ws->rxaio.a_nio == 1 && ws->rxaio.a_iov[0].iov_buf == (void *) &ws->rxframe->head[0] && ws->rxaio.a_iov[0].iov_len == 2))
__CPROVER_ensures((!SR_IDLE && ws->rxframe != NULL) ==> (g_rd_calls == OLD(g_rd_calls) + 1 && g_rd_aio == &ws->rxaio && g_rd_http == ws->http && g_close_calls == OLD(g_close_calls) && g_recvq.n == OLD(g_recvq.n) && g_fin_calls == OLD(g_fin_calls) && !ws->closed && g_ctl_calls == OLD(g_ctl_calls) && g_ctl_op == OLD(g_ctl_op) && g_ctl_len == OLD(g_ctl_len)))
/* ... unless there is no memory for it: the connection is failed (internal error), the receivers are told */
__CPROVER_ensures((!SR_IDLE && ws->rxframe == NULL) ==> (g_rd_calls == OLD(g_rd_calls) && g_close_calls == OLD(g_close_calls) + 1 && g_close_code == WS_ST_INTERNAL && ws->closed && g_recvq.n == 0 && g_fin_calls >= OLD(g_fin_calls) + OLD(g_recvq.n)))
;


/* ---- reassembly step, REPLACEMENT only (frame contracts) ----------------
 * ws_read_finish (real code, with the hand-off snapshot woven at its entry)
 * dispatches to one of these two; inside the ws_read_frame_cb unit they are
 * replaced by assigns-only contracts: they may consume the receive queues,
 * complete waiting receivers (whose aio objects the caller never looks into)
 * and consume queued frames (length / payload cursor).
 * (They also release frames, which the caller never touches again.) */
#define WSF_RXQ_ITEM_FIELDS \
	g_rxq.n >= 1 && g_rxq.n <= WSF_K: g_rxq.item[0]->len, g_rxq.item[0]->buf; \
	g_rxq.n >= 2 && g_rxq.n <= WSF_K: g_rxq.item[1]->len, g_rxq.item[1]->buf; \
	g_rxq.n >= 3 && g_rxq.n <= WSF_K: g_rxq.item[2]->len, g_rxq.item[2]->buf
/* (the last line: what failing the connection on an out-of-memory condition touches, see ws_close) */
#define WSF_FINISH_ASSIGNS g_rxq, g_recvq, WSF_FIN_GHOSTS, WSF_ALLOC_GHOSTS, WSF_MSG_GHOSTS, WSF_CLOSE_GHOSTS, \
	ws->closed, ws->wclose, WSF_RAND_GHOSTS, WSF_TX_GHOSTS, ws->txframe, WSF_IOV_OF(ws->txaio); WSF_RXQ_ITEM_FIELDS
#define WSF_FINISH_WF (WSF_TXQ_OK && WSF_Q_OK(g_recvq) && g_rxq.n <= OLD(g_rxq.n))
/* (ws->ready: ws_close then really starts closing) */
#define WSF_FINISH_QUIET (g_close_calls == OLD(g_close_calls) && g_ctl_calls == OLD(g_ctl_calls) && g_ctl_op == OLD(g_ctl_op) && g_ctl_len == OLD(g_ctl_len) && ws->closed == OLD(ws->closed))
#ifndef WSF_FINISH_FULL
static void ws_read_finish_msg(nni_ws *ws)
__CPROVER_requires(ws->ready)
__CPROVER_assigns(WSF_FINISH_ASSIGNS)
/* fails the connection only when there is no memory for the message (internal error) */
__CPROVER_ensures(WSF_FINISH_WF && (WSF_FINISH_QUIET || (g_close_calls == OLD(g_close_calls) + 1 && g_close_code == WS_ST_INTERNAL && ws->closed)))
;
#endif
static void ws_read_finish_str(nni_ws *ws)
__CPROVER_assigns(WSF_FINISH_ASSIGNS)
__CPROVER_ensures(WSF_FINISH_WF && WSF_FINISH_QUIET)
;

/* ---- 1. receive: header decode and rule enforcement (RFC 6455 5.2-5.5) --
 * ws_read_cb runs once per completed read on the connection.  A frame arrives
 * in up to three reads: the first 2 header bytes (case HEAD), the rest of the
 * header when the first two announce one (case EXT), the payload when it is
 * not empty (case DATA).  One contract text, one unit per case (WSF_CASE);
 * the case preconditions are the stage invariants, which the preceding case
 * establishes in its postcondition (so the chain HEAD -> EXT -> DATA is
 * checked, not assumed).  The complete frame is judged by ws_read_frame_cb,
 * which has its own contract (same rules, stated on the decoded fields) and
 * is replaced by it inside the ws_read_cb units; the ws_read_cb contract
 * re-states the rules on the bytes as they came off the wire.
 *
 * The RFC says WHAT must fail the connection, not WHEN: a violation that is
 * visible early may be acted upon at any later stage before the frame is
 * delivered.  So every stage allows "fail now" for the violations visible so
 * far, and the last stage (the frame is complete) demands it.
 *
 * Vocabulary: WS = the connection, OF = the frame under test (a pointer
 * expression valid in postconditions); both are re-bound per contract. */
#define RXQ_SAME WSF_FQ_SAME(g_rxq)
#define FIN_RXQ_SAME (g_fin_rxq.n == OLD(g_rxq.n) && (g_fin_rxq.n < 1 || g_fin_rxq.item[0] == OLD(g_rxq.item[0])) && (g_fin_rxq.n < 2 || g_fin_rxq.item[1] == OLD(g_rxq.item[1])))
/* no frame was added to the message being reassembled */
#define NOT_ADDED ((g_finish_calls == OLD(g_finish_calls) && RXQ_SAME) || (g_finish_calls == OLD(g_finish_calls) + 1 && FIN_RXQ_SAME))
#define NO_PONG (g_ctl_calls == OLD(g_ctl_calls) || (g_ctl_calls == OLD(g_ctl_calls) + 1 && g_ctl_op == WS_OP_CLOSE))
/* the connection is failed: ws_close exactly once; nothing delivered, no reply to the frame, no further read */
#define FAILED_ANY (g_close_calls == OLD(g_close_calls) + 1 && g_rd_calls == OLD(g_rd_calls) && g_finish_calls == OLD(g_finish_calls) && RXQ_SAME && WS->closed && NO_PONG && WS->inmsg == OLD(WS->inmsg))
#define FAILED(code) (FAILED_ANY && g_close_code == (code))
/* the members of the reassembly queue are real frames */
#define WSF_RXQ_PRE ((g_rxq.n < 1 || __CPROVER_is_fresh(g_rxq.item[0], sizeof(ws_frame))) && (g_rxq.n < 2 || __CPROVER_is_fresh(g_rxq.item[1], sizeof(ws_frame))))
/* payload buffer of a frame of f->len bytes: none / the short buffer inside the frame / a heap block of exactly that size */
#define WSF_PAYLOAD_PRE(f) (((f)->len == 0 && (f)->asize == 0 && (f)->adata == NULL && (f)->buf == NULL) || \
	((f)->len > 0 && (f)->len < 126 && (f)->asize == 0 && (f)->adata == NULL && __CPROVER_pointer_in_range_dfcc(&(f)->sdata[0], (f)->buf, &(f)->sdata[0])) || \
	((f)->len >= 126 && (f)->asize == (f)->len && __CPROVER_is_fresh((f)->adata, (f)->len) && __CPROVER_pointer_in_range_dfcc((f)->adata, (f)->buf, (f)->adata)))

/* stage C: the complete frame is judged.  X = bits 0-6 of header byte 0
 * (RSV1-3 + opcode), FINB = FIN bit, LEN = payload length, G = guard. */
#define SC_OPC(x) ((x) & 0x0fu)
#define SC_BAD(x, finb, len) (((x) & 0x70u) != 0 || !WS_OP_KNOWN(SC_OPC(x)) || (WS_OP_IS_CTL(SC_OPC(x)) && (!(finb) || (len) > 125)))
#define SC_UNSUPP(x) (SC_OPC(x) == WS_OP_TEXT && !WS->recv_text)
#define SC_SEQ_BAD(x) ((SC_OPC(x) == WS_OP_CONT && !OLD(WS->inmsg)) || (WS_OP_IS_DATA(SC_OPC(x)) && OLD(WS->inmsg)))
#define SC_DATA_OK(x, finb, len) (!SC_BAD(x, finb, len) && !WS_OP_IS_CTL(SC_OPC(x)) && !SC_UNSUPP(x) && !SC_SEQ_BAD(x))
#define SC_IS(x, finb, len, o) (!SC_BAD(x, finb, len) && SC_OPC(x) == (o))
#define SC_QUIET (g_close_calls == OLD(g_close_calls))
#define WSF_STAGE_C_ENSURES(G, X, FINB, LEN) \
/* reserved bits, unknown opcode, fragmented or over-long control frame: failed (protocol error) */ \
__CPROVER_ensures(((G) && SC_BAD(X, FINB, LEN)) ==> FAILED(WS_ST_PROTO)) \
/* text frame while text is not accepted (NNG_OPT_WS_RECV_TEXT off), continuation without a start, new message inside a fragmented one: failed */ \
__CPROVER_ensures(((G) && !SC_BAD(X, FINB, LEN) && !WS_OP_IS_CTL(SC_OPC(X)) && (SC_UNSUPP(X) || SC_SEQ_BAD(X))) ==> (FAILED_ANY && ((SC_UNSUPP(X) && g_close_code == WS_ST_UNSUPP) || (SC_SEQ_BAD(X) && g_close_code == WS_ST_PROTO)))) \
/* acceptable data frame: handed to reassembly at the END of the queue, exactly once, with exactly the decoded length */ \
__CPROVER_ensures(((G) && SC_DATA_OK(X, FINB, LEN)) ==> (g_finish_calls == OLD(g_finish_calls) + 1 && g_fin_rxq.n == OLD(g_rxq.n) + 1 && g_fin_rxq.item[OLD(g_rxq.n) % WSF_K] == OF && (OLD(g_rxq.n) < 1 || g_fin_rxq.item[0] == OLD(g_rxq.item[0])) && (OLD(g_rxq.n) < 2 || g_fin_rxq.item[1] == OLD(g_rxq.item[1])))) \
/* (a message is in progress afterwards iff this was not its final frame) */ \
__CPROVER_ensures(((G) && SC_DATA_OK(X, FINB, LEN)) ==> (g_fin_flen == (LEN) && (g_fin_inmsg ? 1 : 0) == ((FINB) ? 0 : 1))) \
__CPROVER_ensures(((G) && SC_DATA_OK(X, FINB, LEN)) ==> (WS->rxframe != OF)) \
__CPROVER_ensures(((G) && SC_DATA_OK(X, FINB, LEN)) ==> ((SC_QUIET || SC_OOM) && (SC_QUIET ==> g_ctl_calls == OLD(g_ctl_calls)))) \
/* PING: answered by ONE PONG of the same length (5.5.3) unless we are closing; PONG: ignored; neither reaches the application */ \
__CPROVER_ensures(((G) && SC_IS(X, FINB, LEN, WS_OP_PING)) ==> (NOT_ADDED && WS->inmsg == OLD(WS->inmsg) && WS->rxframe != OF && (SC_QUIET || SC_OOM) && (SC_QUIET ==> (OLD(WS->closed) ? g_ctl_calls == OLD(g_ctl_calls) : (g_ctl_calls == OLD(g_ctl_calls) + 1 && g_ctl_op == WS_OP_PONG && g_ctl_len == (LEN)))))) \
__CPROVER_ensures(((G) && SC_IS(X, FINB, LEN, WS_OP_PONG)) ==> (NOT_ADDED && WS->inmsg == OLD(WS->inmsg) && WS->rxframe != OF && (SC_QUIET || SC_OOM) && (SC_QUIET ==> g_ctl_calls == OLD(g_ctl_calls)))) \
/* CLOSE: remembered; answered by a close (normal closure) if we were not closing already; nothing more is read */ \
__CPROVER_ensures(((G) && SC_IS(X, FINB, LEN, WS_OP_CLOSE)) ==> (WS->peer_closed && WS->closed && RXQ_SAME && g_finish_calls == OLD(g_finish_calls) && g_rd_calls == OLD(g_rd_calls) && NO_PONG && WS->inmsg == OLD(WS->inmsg))) \
__CPROVER_ensures(((G) && SC_IS(X, FINB, LEN, WS_OP_CLOSE)) ==> (OLD(WS->closed) ? (g_close_calls == OLD(g_close_calls) && g_fin_calls == OLD(g_fin_calls) + 1 && g_fin_last == &WS->closeaio && g_fin_last_rv == 0) : (g_close_calls == OLD(g_close_calls) + 1 && g_close_code == WS_ST_NORMAL)))

/* -- the judge: ws_read_frame_cb(ws, frame), frame == ws->rxframe complete and unmasked -- */
#define WS ws
#define OF frame
/* the only other way to end up closing: the reassembly step ran out of memory */
#define SC_OOM (g_close_calls == OLD(g_close_calls) + 1 && g_close_code == WS_ST_INTERNAL && g_finish_calls == OLD(g_finish_calls) + 1 && WS->closed)
#define FC_X ((unsigned) OLD(frame->op))
#define FC_FIN OLD(frame->final)
#define FC_LEN OLD(frame->len)
static void ws_read_frame_cb(nni_ws *ws, ws_frame *frame)
__CPROVER_requires(__CPROVER_is_fresh(ws, sizeof(*ws)) && WSF_LISTS_PRE(ws) && WSF_Q_OK(g_recvq) && ws->ready)
__CPROVER_requires(__CPROVER_is_fresh(frame, sizeof(ws_frame)) && __CPROVER_pointer_in_range_dfcc(frame, ws->rxframe, frame) && g_the_frame == frame)
/* bound of the frame queue model: at most WSF_K-1 frames are queued before this one */
__CPROVER_requires(g_rxq.n < WSF_K && WSF_TXQ_OK && WSF_RXQ_PRE && (g_txq.n == 0 || __CPROVER_is_fresh(g_txq.head, sizeof(ws_frame))))
__CPROVER_requires(g_eq == 0 || g_eq == WSF_EQ_RX)
/* the decoded opcode field holds bits 0-6 of the first header byte */
__CPROVER_requires(frame->aio == NULL && (unsigned) frame->op <= 0x7fu && WSF_PAYLOAD_PRE(frame))
/* ghost equation: g_hb is the (unmasked) payload byte at index g_hk == g_k */
__CPROVER_requires((g_eq == WSF_EQ_RX && g_k < frame->len) ==> (g_hk == g_k && g_hb == frame->buf[g_k]))
__CPROVER_assigns(ws->closed, ws->wclose, ws->peer_closed, ws->inmsg, ws->rxframe, ws->txframe, WSF_IOV_OF(ws->txaio),
	g_recvq, g_rxq, WSF_TX_GHOSTS, WSF_FIN_GHOSTS, WSF_CLOSE_GHOSTS, WSF_ALLOC_GHOSTS, WSF_RAND_GHOSTS, WSF_SNAP_GHOSTS, WSF_MSG_GHOSTS;
	g_rxq.n >= 1: g_rxq.item[0]->len, g_rxq.item[0]->buf;
	g_rxq.n >= 2: g_rxq.item[1]->len, g_rxq.item[1]->buf;
	frame->len, frame->buf)
__CPROVER_frees(frame, frame->adata)
WSF_STAGE_C_ENSURES(1, FC_X, FC_FIN, FC_LEN)
__CPROVER_ensures(WSF_TXQ_OK && WSF_Q_OK(g_recvq) && g_rxq.n <= WSF_K)
/* the payload is handed over as it is */
__CPROVER_ensures((SC_DATA_OK(FC_X, FC_FIN, FC_LEN) && g_eq == WSF_EQ_RX && g_k < FC_LEN) ==> (g_fin_fbuf == OLD(frame->buf) && g_fin_fb == g_hb))
/* where the next read goes: nowhere if the connection failed or the peer closed (the frame stays put), else the frame has left the read slot */
__CPROVER_ensures((SC_DATA_OK(FC_X, FC_FIN, FC_LEN) || SC_IS(FC_X, FC_FIN, FC_LEN, WS_OP_PING) || SC_IS(FC_X, FC_FIN, FC_LEN, WS_OP_PONG)) ? (ws->rxframe == NULL && (SC_QUIET || SC_OOM)) : (ws->rxframe == frame && ws->closed))
;
#undef WS
#undef OF
#undef SC_OOM

/* -- ws_read_cb -- */
#define WS ((nni_ws *) arg)
#define FR (WS->rxframe)                      /* the frame (pre-state) */
#define OF OLD(WS->rxframe)                   /* the frame (in postconditions) */
#define HP(i) (WS->rxframe->head[i])          /* header bytes now (preconditions) */
#define HB(i) OLD(WS->rxframe->head[i])       /* header bytes as received (postconditions) */
/* the only other way to end up closing: no memory for the NEXT frame after this one was accepted */
#define SC_OOM (g_close_calls == OLD(g_close_calls) + 1 && g_close_code == WS_ST_INTERNAL && WS->rxframe == NULL)
#define WSF_NONE 0
#define WSF_HEAD 1
#define WSF_EXT 2
#define WSF_DATA 3
#ifndef WSF_CASE
#define WSF_CASE WSF_HEAD
#endif
/* the decoded scalar fields of the frame mirror the first two header bytes (inter-stage invariant) */
#define WSF_DECODED(f, h) ((f)->hlen == WS_HLEN(h) && (unsigned) (f)->op == (h(0) & 0x7fu) && (f)->final == WS_FIN(h) && (f)->masked == WS_MASKED(h) && (f)->aio == NULL)
#define WSF_EXT_INV(f, h) (WSF_DECODED(f, h) && WS_HLEN(h) != 2 && (f)->buf == NULL && (f)->len == 0 && (f)->asize == 0 && (f)->adata == NULL)
/* lengths of the frames already queued for the message in progress */
#define RXQ_L0 (g_rxq.n >= 1 ? g_rxq.item[0]->len : (size_t) 0)
#define RXQ_L1 (g_rxq.n >= 2 ? g_rxq.item[1]->len : (size_t) 0)
#define RXQ_SUM (RXQ_L0 + RXQ_L1)
#define WSF_LIMITS(w) ((w)->maxframe <= NNI_MAXSZ && (w)->recvmax <= NNI_MAXSZ)
/* size rules (nng options): frame above maxframe, or message above recvmax (message mode only) */
#define WSF_TOO_BIG(w, len, sum) (((w)->maxframe > 0 && (len) > (w)->maxframe) || (!(w)->isstream && (w)->recvmax > 0 && (len) > (w)->recvmax - (sum)))
/* stage DATA: header complete and checked */
#define WSF_DATA_CHECKED(w, h, sum) (WS_LEN_MINIMAL(h) && WS_MASK_OK(h, (w)->server) && !WSF_TOO_BIG(w, WS_PAYLEN(h), sum))

#define O_RES OLD(WS->rxaio.a_result)
#define RD_OK (O_RES == 0)
#define STILL_OPEN (g_close_calls == OLD(g_close_calls) && g_finish_calls == OLD(g_finish_calls) && RXQ_SAME && g_ctl_calls == OLD(g_ctl_calls) && WS->rxframe == OF && WS->closed == OLD(WS->closed) && WS->inmsg == OLD(WS->inmsg))
#define ARMED(bufp, n) (WS->rxaio.a_nio == 1 && WS->rxaio.a_iov[0].iov_buf == (void *) (bufp) && WS->rxaio.a_iov[0].iov_len == (n) && g_rd_calls == OLD(g_rd_calls) + 1 && g_rd_aio == &WS->rxaio && g_rd_http == WS->http)
#define HEAD_KEPT (OF->head[0] == HB(0) && OF->head[1] == HB(1) && OF->head[2] == HB(2) && OF->head[3] == HB(3) && OF->head[4] == HB(4) && OF->head[5] == HB(5) && OF->head[6] == HB(6) && OF->head[7] == HB(7) && OF->head[8] == HB(8) && OF->head[9] == HB(9) && OF->head[10] == HB(10) && OF->head[11] == HB(11) && OF->head[12] == HB(12) && OF->head[13] == HB(13))

/* guards: which stages this invocation runs through */
#define PLEN WS_PAYLEN(HB)
#define O_RXQ_SUM OLD(g_u64)
#define B_VIOL_P (WS_LEN_SHORT(HB) || !WS_MASK_OK(HB, WS->server))
#define B_VIOL_S (!WS_LEN_SHORT(HB) && WSF_TOO_BIG(WS, PLEN, O_RXQ_SUM))
#define B_TOP WS_LEN_TOPBIT(HB)
#define B_OK (!B_VIOL_P && !B_VIOL_S && !B_TOP)
#if WSF_CASE == WSF_HEAD
#define G_B (RD_OK && WS_HLEN(HB) == 2)
#define G_C (G_B && B_OK && PLEN == 0)
#elif WSF_CASE == WSF_EXT
#define G_B (RD_OK)
#define G_C (G_B && B_OK && PLEN == 0)
#else
#define G_B (0)
#define G_C (RD_OK)
#endif
#define C_X (HB(0) & 0x7fu)
#define C_BAD SC_BAD(C_X, WS_FIN(HB), PLEN)
#define C_WAS_MASKED WS_MASKED(HB)

static void ws_read_cb(void *arg)
__CPROVER_requires(__CPROVER_is_fresh(arg, sizeof(nni_ws)) && WSF_LISTS_PRE(WS) && VP_NO_LOCK_HELD && WS->ready && WSF_LIMITS(WS))
__CPROVER_requires(WSF_Q_OK(g_recvq))
/* bound of the frame queue model: at most WSF_K-1 frames are queued before this one */
__CPROVER_requires(g_rxq.n < WSF_K && WSF_TXQ_OK && WSF_RXQ_PRE && (g_txq.n == 0 || __CPROVER_is_fresh(g_txq.head, sizeof(ws_frame))))
/* invariant of the reassembly queue in message mode: what is queued was admitted under recvmax; g_u64 names the sum */
__CPROVER_requires((!WS->isstream && WS->recvmax > 0) ==> (RXQ_L0 <= WS->recvmax && RXQ_L1 <= WS->recvmax && RXQ_SUM <= WS->recvmax))
__CPROVER_requires(g_u64 == RXQ_SUM)
__CPROVER_requires(g_eq == 0 || g_eq == WSF_EQ_RX)
#if WSF_CASE == WSF_NONE
__CPROVER_requires(WS->rxframe == NULL)
#else
__CPROVER_requires(__CPROVER_is_fresh(WS->rxframe, sizeof(ws_frame)) && g_the_frame == WS->rxframe)
#endif
#if WSF_CASE == WSF_HEAD
__CPROVER_requires(WSF_HEAD_INV(FR))
#elif WSF_CASE == WSF_EXT
__CPROVER_requires(WSF_EXT_INV(FR, HP))
#elif WSF_CASE == WSF_DATA
__CPROVER_requires(WSF_DECODED(FR, HP) && FR->len == WS_PAYLEN(HP) && FR->len > 0 && WSF_DATA_CHECKED(WS, HP, RXQ_SUM))
__CPROVER_requires(WSF_PAYLOAD_PRE(FR))
__CPROVER_requires(FR->masked ==> (FR->mask[0] == FR->head[FR->hlen - 4] && FR->mask[1] == FR->head[FR->hlen - 3] && FR->mask[2] == FR->head[FR->hlen - 2] && FR->mask[3] == FR->head[FR->hlen - 1]))
/* ghost equations: g_b is the payload byte at index g_k as it arrived, g_hb the same byte unmasked */
__CPROVER_requires((g_eq == WSF_EQ_RX && g_k < FR->len) ==> (g_b == FR->buf[g_k] && g_hk == g_k && g_hb == (uint8_t) (FR->masked ? (g_b ^ FR->mask[g_k & 3]) : g_b)))
#endif
__CPROVER_assigns(VP_SYNC_GHOSTS, WS->closed, WS->wclose, WS->peer_closed, WS->inmsg, WS->rxframe, WS->txframe,
	WSF_IOV_OF(WS->rxaio), WSF_IOV_OF(WS->txaio),
	g_recvq, g_rxq, WSF_TX_GHOSTS, WSF_FIN_GHOSTS, WSF_CLOSE_GHOSTS, WSF_RD_GHOSTS, WSF_ALLOC_GHOSTS, WSF_RAND_GHOSTS, WSF_SNAP_GHOSTS, WSF_MSG_GHOSTS;
	g_rxq.n >= 1: g_rxq.item[0]->len, g_rxq.item[0]->buf;
	g_rxq.n >= 2: g_rxq.item[1]->len, g_rxq.item[1]->buf
#if WSF_CASE != WSF_NONE
	; __CPROVER_object_whole(WS->rxframe)
#endif
#if WSF_CASE == WSF_DATA
	; WS->rxframe->asize > 0: __CPROVER_object_whole(WS->rxframe->adata)
#endif
	)
#if WSF_CASE == WSF_DATA
__CPROVER_frees(WS->rxframe, WS->rxframe->adata)
#elif WSF_CASE != WSF_NONE
__CPROVER_frees(WS->rxframe)
#endif
__CPROVER_ensures(VP_NO_LOCK_HELD)
#if WSF_CASE == WSF_NONE
/* no read was outstanding (cancelled during close): nothing happens */
__CPROVER_ensures(g_close_calls == OLD(g_close_calls) && g_rd_calls == OLD(g_rd_calls) && g_finish_calls == OLD(g_finish_calls) && RXQ_SAME && g_fin_calls == OLD(g_fin_calls) && g_ctl_calls == OLD(g_ctl_calls))
#else
/* the read failed: the connection is gone; receivers are told, nothing is delivered, nothing more is read or sent */
__CPROVER_ensures(!RD_OK ==> (WS->closed && g_close_calls == OLD(g_close_calls) + 1 && g_rd_calls == OLD(g_rd_calls) && g_finish_calls == OLD(g_finish_calls) && RXQ_SAME && g_ctl_calls == OLD(g_ctl_calls) && g_recvq.n == 0))
#endif
#if WSF_CASE == WSF_HEAD
/* --- stage A: the first two bytes announce a longer header: read exactly the rest of it --- */
__CPROVER_ensures((RD_OK && WS_HLEN(HB) != 2) ==> (STILL_OPEN && HEAD_KEPT && WSF_EXT_INV(OF, HB) && ARMED(&OF->head[2], WS_HLEN(HB) - 2) && g_alloc_ok == OLD(g_alloc_ok)))
#endif
#if WSF_CASE == WSF_HEAD || WSF_CASE == WSF_EXT
/* --- stage B: the header is complete --- */
/* non-minimal length, wrong masking for our role, frame or message too big: failed; no payload buffer was obtained, nothing delivered */
__CPROVER_ensures((G_B && !B_OK) ==> (FAILED_ANY && g_alloc_ok <= OLD(g_alloc_ok) + 1 && (g_alloc_ok == OLD(g_alloc_ok) || g_ctl_calls != OLD(g_ctl_calls)) && OF->adata == NULL))
__CPROVER_ensures((G_B && !B_OK) ==> (g_close_code == WS_ST_PROTO || g_close_code == WS_ST_TOOBIG || (B_TOP && g_close_code == WS_ST_INTERNAL)))
__CPROVER_ensures((G_B && B_VIOL_P && !B_VIOL_S && !B_TOP) ==> g_close_code == WS_ST_PROTO)
__CPROVER_ensures((G_B && B_VIOL_S && !B_VIOL_P && !B_TOP) ==> g_close_code == WS_ST_TOOBIG)
/* acceptable so far, payload announced: a read of EXACTLY the decoded length into a buffer of that size is armed
 * (or: out of memory => failed; or: a violation already visible in the first byte may be acted upon now) */
__CPROVER_ensures((G_B && B_OK && PLEN > 0) ==> ((STILL_OPEN && HEAD_KEPT && WSF_DECODED(OF, HB) && OF->len == PLEN && ARMED(OF->buf, PLEN)) || FAILED(WS_ST_INTERNAL) || (C_BAD && FAILED(WS_ST_PROTO))))
__CPROVER_ensures((G_B && B_OK && PLEN > 0 && g_close_calls == OLD(g_close_calls)) ==> ((PLEN < 126) ? (OF->buf == &OF->sdata[0] && OF->asize == 0 && OF->adata == NULL && g_alloc_ok == OLD(g_alloc_ok)) : (OF->buf == OF->adata && OF->asize == PLEN && __CPROVER_is_fresh(OF->adata, PLEN) && g_alloc_ok == OLD(g_alloc_ok) + 1)))
__CPROVER_ensures((G_B && B_OK && PLEN > 0 && g_close_calls == OLD(g_close_calls) && C_WAS_MASKED) ==> (OF->mask[0] == OF->head[OF->hlen - 4] && OF->mask[1] == OF->head[OF->hlen - 3] && OF->mask[2] == OF->head[OF->hlen - 2] && OF->mask[3] == OF->head[OF->hlen - 1]))
/* internal error only when memory ran out */
__CPROVER_ensures((G_B && B_OK && PLEN > 0 && g_close_calls != OLD(g_close_calls) && !C_BAD) ==> (PLEN >= 126 && g_close_code == WS_ST_INTERNAL))
#endif
#if WSF_CASE != WSF_NONE
/* --- stage C: the frame is complete --- */
WSF_STAGE_C_ENSURES(G_C, C_X, WS_FIN(HB), PLEN)
#endif
#if WSF_CASE == WSF_DATA
/* the payload handed over is the payload received, unmasked (5.3) */
__CPROVER_ensures((G_C && SC_DATA_OK(C_X, WS_FIN(HB), PLEN) && g_eq == WSF_EQ_RX && g_k < PLEN) ==> (g_fin_fbuf == OLD(WS->rxframe->buf) && g_fin_fb == (uint8_t) (C_WAS_MASKED ? (g_b ^ OLD(WS->rxframe->mask[g_k & 3])) : g_b)))
#endif
;
/* clang-format on */
#endif
