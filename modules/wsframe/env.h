/* Environment of the websocket.c frame codec (ASSUMED models, ghost state in ghost.h).
 *
 *  - HTTP connection: nni_http_read_full / nni_http_write_full only record the
 *    request; the completion of a read (result + the bytes that arrived) is
 *    the symbolic pre-state of the next ws_read_cb invocation;
 *  - user aio wait queue recvq: ghost count + the first two members; when the
 *    head leaves, the second becomes head and the new second is an unknown
 *    non-NULL aio (never looked into by the functions under contract);
 *  - reassembly queue rxq: ghost array holding ALL members in order (at most
 *    WSF_K; an append beyond that is a failing obligation, not an assumption);
 *  - transmit queue txq: ghost count + first member + the one behind it (when
 *    known); no capacity limit;
 *  - completions, aio close/reset/start, nni_random: recorded;
 *  - messages: heap objects (struct nng_msg of ghost.h), allocation may fail. */
#ifndef VP_WSFRAME_ENV_H
#define VP_WSFRAME_ENV_H

/* ---- lists ------------------------------------------------------------- */
static void
vp_aioq_pop(vp_aioq *q)
{
	/* the head leaves: the one behind it becomes head; who is behind that one
	 * is unknown (some aio, not NULL) */
	q->n--;
	q->head = q->next;
	if (q->n >= 2) {
		nni_aio *x = nondet_ptr();
		__CPROVER_assume(x != NULL && x != q->head);
		q->next = x;
	} else {
		q->next = NULL;
	}
}
static vp_frameq *
vp_fq(const nni_list *l)
{
	__CPROVER_assert(l == g_rxq_addr, "list: the reassembly queue of this model");
	return (&g_rxq);
}
void *
nni_list_first(const nni_list *l)
{
	if (l == g_recvq_addr) {
		return (g_recvq.n ? g_recvq.head : NULL);
	}
	if (l == g_txq_addr) {
		return (g_txq.n ? g_txq.head : NULL);
	}
	vp_frameq *q = vp_fq(l);
	return (q->n ? q->item[0] : NULL);
}
void *
nni_list_next(const nni_list *l, void *it)
{
	vp_frameq *q = vp_fq(l);
	__CPROVER_assert(q->n <= WSF_K, "frame queue within model capacity");
	if (q->n >= 1 && it == q->item[0]) {
		return (q->n >= 2 ? q->item[1] : NULL);
	}
	if (q->n >= 2 && it == q->item[1]) {
		return (q->n >= 3 ? q->item[2] : NULL);
	}
	__CPROVER_assert(q->n >= 3 && it == q->item[2], "list_next: item is a member of that queue");
	return (NULL);
}
int
nni_list_empty(nni_list *l)
{
	if (l == g_recvq_addr) {
		return (g_recvq.n == 0);
	}
	if (l == g_txq_addr) {
		return (g_txq.n == 0);
	}
	return (vp_fq(l)->n == 0);
}
void
nni_list_append(nni_list *l, void *it)
{
	__CPROVER_assert(it != NULL, "list_append: item is not NULL");
	if (l == g_txq_addr) {
		if (g_txq.n == 0) {
			g_txq.head = it;
		} else if (g_txq.n == 1) {
			g_txq.next = it;
		}
		g_txq.n++;
		return;
	}
	vp_frameq *q = vp_fq(l);
	__CPROVER_assert(q->n < WSF_K, "frame queue model capacity (WSF_K) not exceeded");
	__CPROVER_assert(!(q->n >= 1 && it == q->item[0]) && !(q->n >= 2 && it == q->item[1]), "list_append: item is not already a member");
	q->item[q->n] = it;
	q->n++;
}
void
nni_list_prepend(nni_list *l, void *it)
{
	__CPROVER_assert(it != NULL, "list_prepend: item is not NULL");
	__CPROVER_assert(l == g_txq_addr, "list_prepend: the transmit queue");
	g_txq.next = g_txq.n ? g_txq.head : NULL;
	g_txq.head = it;
	g_txq.n++;
}
void
nni_list_remove(nni_list *l, void *it)
{
	if (l == g_txq_addr) {
		__CPROVER_assert(g_txq.n > 0 && it == g_txq.head, "list_remove: item is the head of the transmit queue");
		g_txq.n--;
		g_txq.head = g_txq.next;
		g_txq.next = NULL;
		if (g_txq.n >= 1 && g_txq.head == NULL) {
			/* identity unknown to the model: some other frame (a real object) */
			struct ws_frame *x = malloc(sizeof(struct ws_frame));
			__CPROVER_assume(x != NULL);
			g_txq.head = x;
		}
		return;
	}
	vp_frameq *q = vp_fq(l);
	__CPROVER_assert(q->n <= WSF_K, "frame queue within model capacity");
	if (q->n >= 1 && it == q->item[0]) {
		q->item[0] = q->item[1];
		q->item[1] = q->item[2];
	} else if (q->n >= 2 && it == q->item[1]) {
		q->item[1] = q->item[2];
	} else {
		__CPROVER_assert(q->n >= 3 && it == q->item[2], "list_remove: item is a member of that queue");
	}
	q->item[2] = NULL;
	q->n--;
}
void
nni_aio_list_remove(nni_aio *aio)
{
	__CPROVER_assert(aio != NULL, "aio_list_remove: aio is not NULL");
	__CPROVER_assert(g_recvq.n > 0 && aio == g_recvq.head, "aio_list_remove: aio is the head of the receive wait queue");
	vp_aioq_pop(&g_recvq);
}

/* ---- completions / aio run-time ---------------------------------------- */
static void
vp_fin(nni_aio *aio, nng_err rv, size_t count)
{
	__CPROVER_assert(aio != NULL, "completion of a NULL aio");
	g_fin_calls++;
	g_fin_last       = aio;
	g_fin_last_rv    = (int) rv;
	g_fin_last_count = count;
}
void nni_aio_finish(nni_aio *aio, nng_err rv, size_t count) { vp_fin(aio, rv, count); }
void nni_aio_finish_sync(nni_aio *aio, nng_err rv, size_t count) { vp_fin(aio, rv, count); }
void nni_aio_finish_error(nni_aio *aio, nng_err rv) { vp_fin(aio, rv, 0); }
void nni_aio_close(nni_aio *aio) { (void) aio; g_aio_close_calls++; }
void nni_aio_reset(nni_aio *aio) { (void) aio; g_aio_reset_calls++; }
bool nni_aio_start(nni_aio *aio, nni_aio_cancel_fn fn, void *arg) { (void) aio; (void) fn; (void) arg; g_start_calls++; return (g_aio_start_ok); }

/* ---- HTTP connection --------------------------------------------------- */
void nni_http_read_full(nni_http_conn *c, nng_aio *aio) { g_rd_calls++; g_rd_http = c; g_rd_aio = aio; }
void nni_http_write_full(nni_http_conn *c, nng_aio *aio) { g_wr_calls++; g_wr_http = c; g_wr_aio = aio; }
void nni_http_conn_close(nng_http *c) { g_hclose_calls++; g_wr_http = c; }

/* ---- random ------------------------------------------------------------ */
uint32_t
nni_random(void)
{
	g_rand_calls++;
	g_rand_last = nondet_u32();
	return (g_rand_last);
}

/* ---- messages ---------------------------------------------------------- */
int
nni_msg_alloc(nni_msg **mp, size_t sz)
{
	nni_msg *m;
	g_msg_alloc_calls++;
	g_msg_alloc_sz = sz;
	if ((m = malloc(sizeof(*m))) == NULL) {
		return (NNG_ENOMEM);
	}
	if ((m->vm_body = malloc(sz ? sz : 1)) == NULL) {
		free(m);
		return (NNG_ENOMEM);
	}
	m->vm_hlen = 0;
	m->vm_blen = sz;
	g_msg_last = m;
	*mp        = m;
	return (0);
}
size_t nni_msg_len(const nni_msg *m) { return (m->vm_blen); }
void  *nni_msg_body(nni_msg *m) { return (m->vm_body); }
#endif
