/* Must be the FIRST header of the TU.
 *
 * The SSE2/NEON 16-byte loop of ws_apply_mask uses compiler intrinsics, which
 * are outside CBMC's reach: websocket.c is compiled with the SIMD selection
 * macros undefined, so the verified text of ws_apply_mask is the portable
 * path (the 64-bit, 32-bit and byte-tail loops, which the shipped build also
 * runs on the SIMD remainder).  Stated in spec.json "assumes". */
#undef __SSE2__
#undef __aarch64__
