/* Ghost state and model types of the wsframe environment; declared before the
 * real websocket.c so that woven loop invariants / ghost statements can name
 * them.
 *
 * Also pulls in the REAL src/core/aio.c, so that the scatter/gather helpers
 * and plain struct accessors that websocket.c calls on its embedded aios
 * (nni_aio_set_iov, nni_aio_get_iov, nni_aio_count, nni_aio_bump_count,
 * nni_aio_result, nni_aio_get_msg, nni_aio_set_msg) are the real code, not
 * models.  The functions of aio.c that need the aio run-time (task dispatch,
 * expire queue, intrusive lists) are renamed away while aio.c is compiled and
 * are provided as ghost stubs by env.h. */
#ifndef VP_WSFRAME_GHOST_H
#define VP_WSFRAME_GHOST_H
#include "core/nng_impl.h"
#include "nng/http.h"
#include "supplemental/http/http_api.h"

#define nni_aio_finish        vp_rt_nni_aio_finish
#define nni_aio_finish_error  vp_rt_nni_aio_finish_error
#define nni_aio_finish_sync   vp_rt_nni_aio_finish_sync
#define nni_aio_finish_msg    vp_rt_nni_aio_finish_msg
#define nni_aio_list_init     vp_rt_nni_aio_list_init
#define nni_aio_list_append   vp_rt_nni_aio_list_append
#define nni_aio_list_remove   vp_rt_nni_aio_list_remove
#define nni_aio_list_active   vp_rt_nni_aio_list_active
#define nni_aio_close         vp_rt_nni_aio_close
#define nni_aio_reset         vp_rt_nni_aio_reset
#define nni_aio_start         vp_rt_nni_aio_start
#define nni_aio_abort         vp_rt_nni_aio_abort
#include "core/aio.c"
#undef nni_aio_finish
#undef nni_aio_finish_error
#undef nni_aio_finish_sync
#undef nni_aio_finish_msg
#undef nni_aio_list_init
#undef nni_aio_list_append
#undef nni_aio_list_remove
#undef nni_aio_list_active
#undef nni_aio_close
#undef nni_aio_reset
#undef nni_aio_start
#undef nni_aio_abort

/* ASSUMED model of a message (message.c is under contract in module
 * "message"): body a separate heap buffer of exactly vm_blen bytes (1 byte
 * when empty, never accessed). */
struct nng_msg {
	size_t   vm_hlen;
	uint8_t  vm_hdr[64];
	size_t   vm_blen;
	uint8_t *vm_body;
};

/* wait queue of user aios (recvq): count + the first two members (real aio
 * objects where the code under contract looks inside them). */
typedef struct {
	size_t   n;
	nni_aio *head;
	nni_aio *next; /* the one behind the head (n >= 2) */
} vp_aioq;
vp_aioq   g_recvq;
nni_list *g_recvq_addr;

/* Mutable ghosts are grouped into a few structs, one per concern, so that an
 * assigns clause names a handful of objects instead of thirty scalars (every
 * write of the code is checked against every assigns target).  The old scalar
 * names are kept as field aliases. */

/* rxq (received data frames of the message being reassembled): all members,
 * in order, at most WSF_K of them (bound of the units that touch them). */
struct ws_frame;
typedef struct {
	size_t           n;
	struct ws_frame *item[WSF_K];
} vp_frameq;
vp_frameq g_rxq;
nni_list *g_rxq_addr, *g_txq_addr;

/* txq (frames waiting for transmission): count + the first member + the one
 * behind it; the code under contract only looks at the first member, puts
 * control frames in front and data frames at the end. */
typedef struct {
	size_t           n;
	struct ws_frame *head;
	struct ws_frame *next; /* the one behind the head (n >= 2), NULL = unknown */
} vp_txq;

/* transmit side: HTTP connection writes/close, aio run-time, the transmit queue */
struct {
	size_t    wr_calls, hclose_calls;
	nng_http *wr_http; /* connection of the last write/close */
	nni_aio  *wr_aio;
	size_t    aio_close_calls, aio_reset_calls, start_calls;
	vp_txq    txq;
} g_tx;
#define g_wr_calls g_tx.wr_calls
#define g_hclose_calls g_tx.hclose_calls
#define g_wr_http g_tx.wr_http
#define g_wr_aio g_tx.wr_aio
#define g_aio_close_calls g_tx.aio_close_calls
#define g_aio_reset_calls g_tx.aio_reset_calls
#define g_start_calls g_tx.start_calls
#define g_txq g_tx.txq
bool g_aio_start_ok; /* answer of nni_aio_start (never written) */

/* receive side: HTTP connection reads */
struct {
	size_t    rd_calls;
	nng_http *rd_http;
	nni_aio  *rd_aio;
} g_rd;
#define g_rd_calls g_rd.rd_calls
#define g_rd_http g_rd.rd_http
#define g_rd_aio g_rd.rd_aio

/* completions of aios */
struct {
	size_t   fin_calls;
	nni_aio *fin_last;
	int      fin_last_rv;
	size_t   fin_last_count;
} g_fn;
#define g_fin_calls g_fn.fin_calls
#define g_fin_last g_fn.fin_last
#define g_fin_last_rv g_fn.fin_last_rv
#define g_fin_last_count g_fn.fin_last_count

/* nni_random */
struct {
	uint32_t rand_last; /* value handed out by the last nni_random() */
	size_t   rand_calls;
} g_rn;
#define g_rand_last g_rn.rand_last
#define g_rand_calls g_rn.rand_calls

/* messages */
struct {
	size_t   msg_alloc_calls;
	size_t   msg_alloc_sz;
	nni_msg *msg_last; /* last message allocated */
} g_ms;
#define g_msg_alloc_calls g_ms.msg_alloc_calls
#define g_msg_alloc_sz g_ms.msg_alloc_sz
#define g_msg_last g_ms.msg_last

/* ghost statements woven at function entry (spec.json "weave"/"entry"):
 * "fail the connection" = ws_close is called; record how often and with
 * which status code; control frame construction: how often, last opcode and
 * payload length. */
struct {
	size_t   close_calls;
	uint16_t close_code;
	size_t   ctl_calls;
	uint8_t  ctl_op;
	size_t   ctl_len;
} g_cl;
#define g_close_calls g_cl.close_calls
#define g_close_code g_cl.close_code
#define g_ctl_calls g_cl.ctl_calls
#define g_ctl_op g_cl.ctl_op
#define g_ctl_len g_cl.ctl_len
/* hand-off of received data frames to the reassembly step (ws_read_finish):
 * number of calls and a snapshot of what it was given: the frame queue, the
 * "message unfinished" flag, and -- when the last queued frame is the frame
 * under test g_the_frame -- its length, payload pointer and payload byte g_k.
 * (The reassembly step may consume and release frames, so the caller's
 * postcondition speaks about this snapshot.) */
struct {
	size_t    finish_calls;
	vp_frameq fin_rxq;
	bool      fin_inmsg;
	size_t    fin_flen;
	uint8_t  *fin_fbuf;
	uint8_t   fin_fb;
} g_sn;
#define g_finish_calls g_sn.finish_calls
#define g_fin_rxq g_sn.fin_rxq
#define g_fin_inmsg g_sn.fin_inmsg
#define g_fin_flen g_sn.fin_flen
#define g_fin_fbuf g_sn.fin_fbuf
#define g_fin_fb g_sn.fin_fb
struct ws_frame *g_the_frame;
#define VP_SNAP_FINISH(ws)                                                    \
	do {                                                                      \
		g_finish_calls++;                                                     \
		g_fin_rxq   = g_rxq;                                                  \
		g_fin_inmsg = (ws)->inmsg;                                            \
		if (g_the_frame != NULL && g_rxq.n >= 1 && g_rxq.n <= WSF_K &&        \
		    g_rxq.item[g_rxq.n - 1] == g_the_frame) {                         \
			g_fin_flen = g_the_frame->len;                                    \
			g_fin_fbuf = g_the_frame->buf;                                    \
			if (g_k < g_the_frame->len) {                                     \
				g_fin_fb = g_the_frame->buf[g_k];                             \
			}                                                                 \
		}                                                                     \
	} while (0)

/* which object the ghost pair (g_k, g_b) speaks about (WSF_EQ_*), a free ghost */
int g_eq;
#endif
