/* Module-local memcpy model for the unit(s) that define WSF_MEMCPY_SLICE
 * (ws_frame_prep_tx copies up to NNI_AIO_MAX_IOV buffers of symbolic length
 * into one heap block: CBMC's exact array_copy model does not finish on
 * several symbolic-length updates of one object, HOWTO "memcpy/memmove").
 *
 *  - copies whose length is a compile-time constant (the 4/8-byte copies of
 *    the header/mask code) stay with CBMC's exact built-in model;
 *  - otherwise: the same preconditions are checked (regions readable /
 *    writeable), then ONLY the n destination bytes are havocked and the byte
 *    whose offset INSIDE THE DESTINATION OBJECT is the ghost index g_k is
 *    re-established.  Every behaviour of the real memcpy is a behaviour of
 *    this model, so an obligation proved with it holds with the real
 *    function; nothing may be concluded about destination bytes other than
 *    the one at object offset g_k (g_k is unconstrained, so a postcondition
 *    about byte g_k is a statement about every byte).
 */
#ifndef VP_WSFRAME_MEM_H
#define VP_WSFRAME_MEM_H
#ifdef WSF_MEMCPY_SLICE
static inline void *
wsf_memcpy(void *dst, const void *src, size_t n)
{
	__CPROVER_assert(__CPROVER_r_ok(src, n), "memcpy source region readable");
	__CPROVER_assert(__CPROVER_w_ok(dst, n), "memcpy destination region writeable");
	const uint8_t *s = (const uint8_t *) src;
	uint8_t       *d = (uint8_t *) dst;
#if WSF_MEMCPY_SLICE == 2
	/* coarser variant for units that never look at the copied bytes: the whole
	 * destination OBJECT is havocked (a heap block of its own in those units) */
	if (n > 0) {
		__CPROVER_havoc_object(d);
	}
	(void) s;
#else
	if (n > 0) {
		size_t  off  = (size_t) __CPROVER_POINTER_OFFSET(d);
		bool    here = (g_k >= off && g_k - off < n);
		uint8_t bk   = here ? s[g_k - off] : 0;
		__CPROVER_havoc_slice(d, n);
		if (here) {
			d[g_k - off] = bk;
		}
	}
#endif
	return (dst);
}
#define memcpy(d, s, n) (__builtin_constant_p(n) ? (memcpy)((d), (s), (n)) : wsf_memcpy((d), (s), (n)))
#endif
#endif
