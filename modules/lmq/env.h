/* Environment of lmq.c: nng_msg is opaque here; nni_msg_free is an ASSUMED
 * stub that only records ghost accounting (how many frees, and which message
 * the g_j-th free released). */
void
nni_msg_free(nng_msg *m)
{
	if (g_msg_freed == g_j) {
		g_msg_freed_at_j = m;
	}
	g_msg_freed++;
}
