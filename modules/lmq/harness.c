/* One entry per function under contract: arguments unconstrained, the
 * precondition (assumed by the DFCC wrapper) is the only restriction. */
#define VP_HAVOC_GHOSTS()                         \
	do {                                      \
		g_k              = nondet_size_t(); \
		g_j              = nondet_size_t(); \
		g_msg_freed      = nondet_size_t(); \
		g_msg_freed_at_j = nondet_ptr();    \
		g_free_calls     = nondet_size_t(); \
		g_alloc_ok       = nondet_size_t(); \
		__CPROVER_assume(g_alloc_ok < ((size_t) 1 << 40)); \
		__CPROVER_assume(g_msg_freed < ((size_t) 1 << 40)); \
		__CPROVER_assume(g_free_calls < ((size_t) 1 << 40)); \
	} while (0)

void h_lmq_init(void)   { nni_lmq *q; size_t cap; VP_HAVOC_GHOSTS(); nni_lmq_init(q, cap); VP_CANARY(); }
void h_lmq_put(void)    { nni_lmq *q; nng_msg *m; VP_HAVOC_GHOSTS(); nni_lmq_put(q, m); VP_CANARY(); }
void h_lmq_get(void)    { nni_lmq *q; nng_msg **mp; VP_HAVOC_GHOSTS(); nni_lmq_get(q, mp); VP_CANARY(); }
void h_lmq_flush(void)  { nni_lmq *q; VP_HAVOC_GHOSTS(); nni_lmq_flush(q); VP_CANARY(); }
void h_lmq_fini(void)   { nni_lmq *q; VP_HAVOC_GHOSTS(); nni_lmq_fini(q); VP_CANARY(); }
void h_lmq_resize(void) { nni_lmq *q; size_t cap; VP_HAVOC_GHOSTS(); nni_lmq_resize(q, cap); VP_CANARY(); }
void h_lmq_len(void)    { nni_lmq *q; nni_lmq_len(q); VP_CANARY(); }
void h_lmq_cap(void)    { nni_lmq *q; nni_lmq_cap(q); VP_CANARY(); }
void h_lmq_full(void)   { nni_lmq *q; nni_lmq_full(q); VP_CANARY(); }
void h_lmq_empty(void)  { nni_lmq *q; nni_lmq_empty(q); VP_CANARY(); }
