/* Spec macros for lmq (no code; usable before the real source is included
 * because macros expand at use). */
#ifndef VP_LMQ_SPEC_H
#define VP_LMQ_SPEC_H

#ifdef LMQ_MAXALLOC_OVERRIDE
#define LMQ_MAXALLOC ((size_t) LMQ_MAXALLOC_OVERRIDE)
#else
#define LMQ_MAXALLOC ((size_t) 1 << 32)
#endif

#define LMQ_VIEW(q, k) ((q)->lmq_msgs[((q)->lmq_get + (k)) & (q)->lmq_mask])

/* scalar part of the representation invariant */
#define LMQ_WF_SCALAR(q)                                                     \
	((((q)->lmq_alloc == 0)                                              \
	         ? ((q)->lmq_mask == 1 && (q)->lmq_cap <= 2)                 \
	         : (VP_POW2((q)->lmq_alloc) && (q)->lmq_alloc >= 2 &&        \
	               (q)->lmq_alloc <= LMQ_MAXALLOC &&                     \
	               (q)->lmq_mask == (q)->lmq_alloc - 1 &&                \
	               (q)->lmq_cap <= (q)->lmq_alloc)) &&                   \
	    (q)->lmq_get <= (q)->lmq_mask && (q)->lmq_put <= (q)->lmq_mask && \
	    (q)->lmq_len <= (q)->lmq_cap &&                                  \
	    (((q)->lmq_get + (q)->lmq_len) & (q)->lmq_mask) == (q)->lmq_put)

/* pointer shape: inline two-slot buffer, or a heap array of alloc slots */
/* same, for a queue embedded in a larger (already fresh) object */
#define LMQ_INNER_PRE(q)                                                     \
	((((q)->lmq_alloc == 0 &&                                            \
	      __CPROVER_pointer_in_range_dfcc(                               \
	          &(q)->lmq_buf[0], (q)->lmq_msgs, &(q)->lmq_buf[0])) ||     \
	     ((q)->lmq_alloc != 0 && (q)->lmq_alloc <= LMQ_MAXALLOC &&       \
	         __CPROVER_is_fresh((q)->lmq_msgs,                           \
	             (q)->lmq_alloc * sizeof(nng_msg *)))) &&                \
	    LMQ_WF_SCALAR(q))

#define LMQ_SHAPE_PRE(q)                                                     \
	(__CPROVER_is_fresh((q), sizeof(nni_lmq)) &&                         \
	    (((q)->lmq_alloc == 0 &&                                         \
	         __CPROVER_pointer_in_range_dfcc(                            \
	             &(q)->lmq_buf[0], (q)->lmq_msgs, &(q)->lmq_buf[0])) ||          \
	        ((q)->lmq_alloc != 0 && (q)->lmq_alloc <= LMQ_MAXALLOC &&    \
	            __CPROVER_is_fresh((q)->lmq_msgs,                        \
	                (q)->lmq_alloc * sizeof(nng_msg *)))))

/* postcondition form: a freshly allocated array (assumed fresh when the
 * contract replaces a call, checked fresh when it is enforced) */
#define LMQ_SHAPE_POST_FRESH(q)                                              \
	(((q)->lmq_alloc == 0 && (q)->lmq_msgs == &(q)->lmq_buf[0]) ||       \
	    ((q)->lmq_alloc != 0 && (q)->lmq_alloc <= LMQ_MAXALLOC &&        \
	        __CPROVER_is_fresh((q)->lmq_msgs,                            \
	            (q)->lmq_alloc * sizeof(nng_msg *))))

#define LMQ_UNCHANGED_GEOM(q)                                                \
	((q)->lmq_cap == __CPROVER_old((q)->lmq_cap) &&                      \
	    (q)->lmq_alloc == __CPROVER_old((q)->lmq_alloc) &&               \
	    (q)->lmq_mask == __CPROVER_old((q)->lmq_mask) &&                 \
	    VP_SAME_PTR((q)->lmq_msgs))

/* pre-state snapshot into locals of the function under contract (woven at the
 * function entry; only read by vp/replay.py from counterexample traces) */
#define VP_SNAP_LMQ(q)                                                       \
	size_t vp_in_cap = (q) ? (q)->lmq_cap : 0, vp_in_alloc = (q) ? (q)->lmq_alloc : 0, \
	       vp_in_mask = (q) ? (q)->lmq_mask : 0, vp_in_len = (q) ? (q)->lmq_len : 0,   \
	       vp_in_get = (q) ? (q)->lmq_get : 0, vp_in_put = (q) ? (q)->lmq_put : 0

#endif
