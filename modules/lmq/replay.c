/* Native replay driver for lmq: rebuilds the concrete pre-state a CBMC
 * counterexample describes, runs the REAL function from /repo/src/core/lmq.c
 * under ASan/UBSan, and evaluates the same representation invariant
 * (LMQ_WF_SCALAR from spec.h) and FIFO postconditions in plain C. */
#include "vp_native.h"
#include "modules/lmq/spec.h"
#include "core/lmq.c" /* the real file, via -I/repo/src */

static size_t n_freed;
static void  *freed[1 << 16];
void
nni_msg_free(nng_msg *m)
{
	if (n_freed < (1 << 16))
		freed[n_freed] = m;
	n_freed++;
}
void *nni_alloc(size_t sz) { return (sz > 0 ? malloc(sz) : NULL); }
void *nni_zalloc(size_t sz) { return (sz > 0 ? calloc(1, sz) : NULL); }
void  nni_free(void *p, size_t sz) { (void) sz; free(p); }

#define MSG(i) ((nng_msg *) (uintptr_t) (0x1000 + 16 * (i)))

int
main(int argc, char **argv)
{
	nni_lmq q;
	if (argc < 2) {
		fprintf(stderr, "usage: replay <inputs>\n");
		return 2;
	}
	vp_load(argv[1]);
	memset(&q, 0, sizeof(q));
	q.lmq_cap   = vp_u64("vp_in_cap", 2);
	q.lmq_alloc = vp_u64("vp_in_alloc", 0);
	q.lmq_mask  = vp_u64("vp_in_mask", 1);
	q.lmq_len   = vp_u64("vp_in_len", 0);
	q.lmq_get   = vp_u64("vp_in_get", 0);
	q.lmq_put   = vp_u64("vp_in_put", 0);
	const char *fn0 = argc > 2 ? argv[2] : "nni_lmq_resize";
	if (strcmp(fn0, "nni_lmq_init") == 0) {
		/* no pre-state: the structure is whatever was there before (0xA5 here) */
		size_t cap = vp_u64("vp_arg_cap", 0);
		if (!vp_has("vp_arg_cap") || cap > (1u << 20)) {
			printf("REPLAY-RESULT: skipped (%s)\n", vp_has("vp_arg_cap") ? "capacity too large to build natively" : "trace has no entry snapshot");
			return 3;
		}
		memset(&q, 0xA5, sizeof(q));
		nni_lmq_init(&q, cap);
		printf("nni_lmq_init(cap=%zu); now cap=%zu alloc=%zu mask=%zu len=%zu get=%zu put=%zu\n", cap, q.lmq_cap, q.lmq_alloc, q.lmq_mask,
		    q.lmq_len, q.lmq_get, q.lmq_put);
		VP_EXPECT(LMQ_WF_SCALAR(&q));
		VP_EXPECT(q.lmq_len == 0);
		VP_EXPECT(q.lmq_cap == cap || (cap > 2 && q.lmq_cap == 2 && q.lmq_alloc == 0));
		VP_EXPECT(q.lmq_alloc == 0 ? q.lmq_msgs == q.lmq_buf : (q.lmq_msgs != NULL && q.lmq_msgs != q.lmq_buf));
		if (LMQ_WF_SCALAR(&q)) {
			/* what a user sees next: exactly cap messages go in and come out in order */
			size_t   k = 0;
			nng_msg *m;
			while (nni_lmq_put(&q, MSG(k)) == 0 && k < (1u << 21))
				k++;
			VP_EXPECT(k == q.lmq_cap);
			for (size_t i = 0; i < k; i++)
				VP_EXPECT(nni_lmq_get(&q, &m) == 0 && m == MSG(i));
			nni_lmq_fini(&q);
		}
		VP_DONE();
	}
	if (strcmp(fn0, "nni_lmq_len") == 0 || strcmp(fn0, "nni_lmq_cap") == 0 || strcmp(fn0, "nni_lmq_full") == 0 ||
	    strcmp(fn0, "nni_lmq_empty") == 0) {
		/* accessors: any structure contents (no representation invariant required) */
		if (!vp_has("vp_in_len")) {
			printf("REPLAY-RESULT: skipped (trace has no entry snapshot)\n");
			return 3;
		}
		q.lmq_msgs = q.lmq_buf;
		if (strcmp(fn0, "nni_lmq_len") == 0)
			VP_EXPECT(nni_lmq_len(&q) == q.lmq_len);
		else if (strcmp(fn0, "nni_lmq_cap") == 0)
			VP_EXPECT(nni_lmq_cap(&q) == q.lmq_cap);
		else if (strcmp(fn0, "nni_lmq_full") == 0)
			VP_EXPECT(nni_lmq_full(&q) == (q.lmq_len >= q.lmq_cap));
		else
			VP_EXPECT(nni_lmq_empty(&q) == (q.lmq_len == 0));
		printf("%s on {cap=%zu len=%zu}\n", fn0, q.lmq_cap, q.lmq_len);
		VP_EXPECT(q.lmq_cap == vp_u64("vp_in_cap", 2) && q.lmq_len == vp_u64("vp_in_len", 0));
		VP_DONE();
	}
	if (q.lmq_alloc > (1u << 20)) {
		printf("REPLAY-RESULT: skipped (alloc %zu too large to build natively)\n", q.lmq_alloc);
		return 3;
	}
	if (!LMQ_WF_SCALAR(&q)) {
		printf("REPLAY-RESULT: skipped (counterexample pre-state violates LMQ_WF_SCALAR)\n");
		return 3;
	}
	q.lmq_msgs = q.lmq_alloc ? malloc(q.lmq_alloc * sizeof(nng_msg *)) : q.lmq_buf;
	for (size_t i = 0; i < q.lmq_len; i++)
		LMQ_VIEW(&q, i) = MSG(i);
	size_t old_len = q.lmq_len;
	const char *fn = argc > 2 ? argv[2] : "nni_lmq_resize";
	if (strcmp(fn, "nni_lmq_resize") == 0) {
		size_t cap = vp_u64("vp_arg_cap", 0);
		int    rv  = nni_lmq_resize(&q, cap);
		printf("nni_lmq_resize(cap=%zu) on {cap=%zu alloc=%zu len=%zu get=%zu} -> %d; now alloc=%zu mask=%zu len=%zu get=%zu put=%zu\n",
		    cap, (size_t) vp_u64("vp_in_cap", 2), (size_t) vp_u64("vp_in_alloc", 0), old_len,
		    (size_t) vp_u64("vp_in_get", 0), rv, q.lmq_alloc, q.lmq_mask, q.lmq_len, q.lmq_get, q.lmq_put);
		VP_EXPECT(LMQ_WF_SCALAR(&q));
		if (rv == 0) {
			VP_EXPECT(q.lmq_len == VP_MIN(old_len, cap));
			for (size_t i = 0; i < q.lmq_len && LMQ_WF_SCALAR(&q); i++)
				VP_EXPECT(LMQ_VIEW(&q, i) == MSG(i));
			VP_EXPECT(n_freed == old_len - VP_MIN(old_len, cap));
			for (size_t i = 0; i < n_freed; i++)
				VP_EXPECT(freed[i] == MSG(VP_MIN(old_len, cap) + i));
			/* what a user sees next: fill the queue, then drain it (ASan
			 * reports the out-of-bounds slot if the indices are broken) */
			size_t extra = 0;
			while (nni_lmq_put(&q, MSG(1000 + extra)) == 0)
				extra++;
			nng_msg *m;
			for (size_t i = 0; i < VP_MIN(old_len, cap); i++) {
				VP_EXPECT(nni_lmq_get(&q, &m) == 0 && m == MSG(i));
			}
			for (size_t i = 0; i < extra; i++) {
				VP_EXPECT(nni_lmq_get(&q, &m) == 0 && m == MSG(1000 + i));
			}
		}
	} else if (strcmp(fn, "nni_lmq_put") == 0) {
		int rv = nni_lmq_put(&q, MSG(999));
		VP_EXPECT(LMQ_WF_SCALAR(&q));
		VP_EXPECT((rv == NNG_EAGAIN) == (old_len >= q.lmq_cap));
		if (rv == 0) {
			VP_EXPECT(q.lmq_len == old_len + 1 && LMQ_VIEW(&q, old_len) == MSG(999));
		}
		for (size_t i = 0; i < old_len; i++)
			VP_EXPECT(LMQ_VIEW(&q, i) == MSG(i));
	} else if (strcmp(fn, "nni_lmq_get") == 0) {
		nng_msg *m  = NULL;
		int      rv = nni_lmq_get(&q, &m);
		VP_EXPECT(LMQ_WF_SCALAR(&q));
		VP_EXPECT((rv == NNG_EAGAIN) == (old_len == 0));
		if (rv == 0) {
			VP_EXPECT(m == MSG(0) && q.lmq_len == old_len - 1);
			for (size_t i = 0; i < q.lmq_len; i++)
				VP_EXPECT(LMQ_VIEW(&q, i) == MSG(i + 1));
		}
	} else if (strcmp(fn, "nni_lmq_flush") == 0 || strcmp(fn, "nni_lmq_fini") == 0) {
		if (strcmp(fn, "nni_lmq_flush") == 0) {
			nni_lmq_flush(&q);
			VP_EXPECT(LMQ_WF_SCALAR(&q) && q.lmq_len == 0);
		} else {
			nni_lmq_fini(&q);
			q.lmq_alloc = 0;
		}
		VP_EXPECT(n_freed == old_len);
		for (size_t i = 0; i < n_freed; i++)
			VP_EXPECT(freed[i] == MSG(i));
	} else {
		printf("REPLAY-RESULT: skipped (no native driver for %s)\n", fn);
		return 3;
	}
	if (q.lmq_alloc)
		free(q.lmq_msgs);
	VP_DONE();
}
