/* Contracts for src/core/lmq.c (redeclarations after the definitions).
 *
 * Abstract view of a queue q:  VIEW(q,k) for k < q->lmq_len, the k-th oldest
 * message.  Representation invariant LMQ_WF(q).  Every postcondition is taken
 * from property C18: bounded (len <= cap), FIFO (put appends at the end, get
 * removes the front and shifts), resize keeps the oldest min(len,cap)
 * messages in order and discards whole messages from the tail end only, each
 * exactly once.
 */
#ifndef VP_LMQ_CONTRACTS_H
#define VP_LMQ_CONTRACTS_H

void nni_lmq_init(nni_lmq *lmq, size_t cap)
    /* clang-format off */
__CPROVER_requires(__CPROVER_is_fresh(lmq, sizeof(nni_lmq)))
__CPROVER_requires(cap <= LMQ_MAXALLOC)
__CPROVER_assigns(*lmq, g_msg_freed, g_msg_freed_at_j, g_free_calls, g_alloc_ok)
__CPROVER_ensures(LMQ_WF_SCALAR(lmq) && LMQ_SHAPE_POST_FRESH(lmq))
__CPROVER_ensures(lmq->lmq_len == 0)
/* capacity: what was asked for, or the documented fallback of 2 when the
 * allocation for a larger queue failed */
__CPROVER_ensures(lmq->lmq_cap == cap || (cap > 2 && lmq->lmq_cap == 2 && lmq->lmq_alloc == 0))
    /* clang-format on */
    ;

int nni_lmq_put(nni_lmq *lmq, nng_msg *msg)
    /* clang-format off */
__CPROVER_requires(LMQ_SHAPE_PRE(lmq) && LMQ_WF_SCALAR(lmq))
__CPROVER_assigns(lmq->lmq_put, lmq->lmq_len, __CPROVER_object_whole(lmq->lmq_msgs))
__CPROVER_ensures(LMQ_WF_SCALAR(lmq) && LMQ_UNCHANGED_GEOM(lmq))
__CPROVER_ensures(lmq->lmq_get == __CPROVER_old(lmq->lmq_get))
/* bounded: refuses exactly when full, and then nothing changes */
__CPROVER_ensures((__CPROVER_return_value == NNG_EAGAIN) == (__CPROVER_old(lmq->lmq_len) >= __CPROVER_old(lmq->lmq_cap)))
__CPROVER_ensures(__CPROVER_return_value == 0 || __CPROVER_return_value == NNG_EAGAIN)
__CPROVER_ensures(__CPROVER_return_value != 0 ==> lmq->lmq_len == __CPROVER_old(lmq->lmq_len))
__CPROVER_ensures(__CPROVER_return_value == 0 ==> lmq->lmq_len == __CPROVER_old(lmq->lmq_len) + 1)
/* FIFO view: old elements keep their position, msg is the new last one */
__CPROVER_ensures(g_k < __CPROVER_old(lmq->lmq_len) ==> LMQ_VIEW(lmq, g_k) == __CPROVER_old(LMQ_VIEW(lmq, g_k)))
__CPROVER_ensures(__CPROVER_return_value == 0 ==> LMQ_VIEW(lmq, lmq->lmq_len - 1) == msg)
    /* clang-format on */
    ;

int nni_lmq_get(nni_lmq *lmq, nng_msg **mp)
    /* clang-format off */
__CPROVER_requires(LMQ_SHAPE_PRE(lmq) && LMQ_WF_SCALAR(lmq))
__CPROVER_requires(__CPROVER_is_fresh(mp, sizeof(*mp)))
__CPROVER_assigns(lmq->lmq_get, lmq->lmq_len, *mp)
__CPROVER_ensures(LMQ_WF_SCALAR(lmq) && LMQ_UNCHANGED_GEOM(lmq))
__CPROVER_ensures(lmq->lmq_put == __CPROVER_old(lmq->lmq_put))
__CPROVER_ensures((__CPROVER_return_value == NNG_EAGAIN) == (__CPROVER_old(lmq->lmq_len) == 0))
__CPROVER_ensures(__CPROVER_return_value == 0 || __CPROVER_return_value == NNG_EAGAIN)
__CPROVER_ensures(__CPROVER_return_value != 0 ==> lmq->lmq_len == __CPROVER_old(lmq->lmq_len))
__CPROVER_ensures(__CPROVER_return_value != 0 ==> lmq->lmq_get == __CPROVER_old(lmq->lmq_get))
__CPROVER_ensures(__CPROVER_return_value == 0 ==> lmq->lmq_len == __CPROVER_old(lmq->lmq_len) - 1)
__CPROVER_ensures(__CPROVER_return_value == 0 ==> lmq->lmq_get == ((__CPROVER_old(lmq->lmq_get) + 1) & lmq->lmq_mask))
/* FIFO: the oldest one comes out, the rest shift down by one */
__CPROVER_ensures(__CPROVER_return_value == 0 ==> *mp == __CPROVER_old(LMQ_VIEW(lmq, 0)))
__CPROVER_ensures((__CPROVER_return_value == 0 && g_k < lmq->lmq_len && g_k < LMQ_MAXALLOC) ==> LMQ_VIEW(lmq, g_k) == __CPROVER_old(LMQ_VIEW(lmq, g_k + 1)))
    /* clang-format on */
    ;

void nni_lmq_flush(nni_lmq *lmq)
    /* clang-format off */
__CPROVER_requires(LMQ_SHAPE_PRE(lmq) && LMQ_WF_SCALAR(lmq))
__CPROVER_assigns(lmq->lmq_get, lmq->lmq_len, g_msg_freed, g_msg_freed_at_j)
__CPROVER_ensures(LMQ_WF_SCALAR(lmq) && LMQ_UNCHANGED_GEOM(lmq))
__CPROVER_ensures(lmq->lmq_len == 0)
/* every queued message is released exactly once, oldest first */
__CPROVER_ensures(g_msg_freed == __CPROVER_old(g_msg_freed) + __CPROVER_old(lmq->lmq_len))
__CPROVER_ensures((g_j >= __CPROVER_old(g_msg_freed) && g_j < g_msg_freed) ==> g_msg_freed_at_j == __CPROVER_old(LMQ_VIEW(lmq, g_j - g_msg_freed)))
    /* clang-format on */
    ;

void nni_lmq_fini(nni_lmq *lmq)
    /* clang-format off */
__CPROVER_requires(lmq == NULL || (LMQ_SHAPE_PRE(lmq) && LMQ_WF_SCALAR(lmq)))
__CPROVER_assigns(lmq != NULL: lmq->lmq_get, lmq->lmq_len; g_msg_freed, g_msg_freed_at_j, g_free_calls)
__CPROVER_frees(lmq != NULL && lmq->lmq_alloc > 0: lmq->lmq_msgs)
__CPROVER_ensures(lmq != NULL ==> lmq->lmq_len == 0)
__CPROVER_ensures(lmq != NULL ==> g_msg_freed == __CPROVER_old(g_msg_freed) + __CPROVER_old(lmq->lmq_len))
__CPROVER_ensures((lmq != NULL && g_j >= __CPROVER_old(g_msg_freed) && g_j < g_msg_freed) ==> g_msg_freed_at_j == __CPROVER_old(LMQ_VIEW(lmq, g_j - g_msg_freed)))
/* the heap array is released (exactly when there is one) */
__CPROVER_ensures(lmq != NULL ==> (g_free_calls == __CPROVER_old(g_free_calls) + (__CPROVER_old(lmq->lmq_alloc) > 0 ? 1 : 0)))
__CPROVER_ensures((lmq != NULL && __CPROVER_old(lmq->lmq_alloc) > 0) ==> __CPROVER_was_freed(__CPROVER_old(lmq->lmq_msgs)))
    /* clang-format on */
    ;

int nni_lmq_resize(nni_lmq *lmq, size_t cap)
    /* clang-format off */
__CPROVER_requires(LMQ_SHAPE_PRE(lmq) && LMQ_WF_SCALAR(lmq))
__CPROVER_requires(cap <= LMQ_MAXALLOC)
__CPROVER_assigns(*lmq, g_msg_freed, g_msg_freed_at_j, g_free_calls, g_alloc_ok)
__CPROVER_frees(lmq->lmq_alloc > 0: lmq->lmq_msgs)
__CPROVER_ensures(__CPROVER_return_value == 0 || __CPROVER_return_value == NNG_ENOMEM)
__CPROVER_ensures(LMQ_WF_SCALAR(lmq))
__CPROVER_ensures(__CPROVER_return_value == 0 ==> __CPROVER_is_fresh(lmq->lmq_msgs, lmq->lmq_alloc * sizeof(nng_msg *)))
/* failure: nothing changed, nothing released */
__CPROVER_ensures(__CPROVER_return_value != 0 ==> (LMQ_UNCHANGED_GEOM(lmq) && lmq->lmq_len == __CPROVER_old(lmq->lmq_len) && lmq->lmq_get == __CPROVER_old(lmq->lmq_get) && lmq->lmq_put == __CPROVER_old(lmq->lmq_put) && g_msg_freed == __CPROVER_old(g_msg_freed)))
__CPROVER_ensures((__CPROVER_return_value != 0 && g_k < lmq->lmq_len) ==> LMQ_VIEW(lmq, g_k) == __CPROVER_old(LMQ_VIEW(lmq, g_k)))
/* success: new depth, the oldest min(len,cap) survive in order ... */
__CPROVER_ensures(__CPROVER_return_value == 0 ==> (lmq->lmq_cap == cap && lmq->lmq_alloc >= 2 && lmq->lmq_alloc >= cap))
__CPROVER_ensures(__CPROVER_return_value == 0 ==> lmq->lmq_len == VP_MIN(__CPROVER_old(lmq->lmq_len), cap))
__CPROVER_ensures((__CPROVER_return_value == 0 && g_k < lmq->lmq_len) ==> LMQ_VIEW(lmq, g_k) == __CPROVER_old(LMQ_VIEW(lmq, g_k)))
/* ... and only what no longer fits is discarded, whole, once each, from the tail end */
__CPROVER_ensures(__CPROVER_return_value == 0 ==> g_msg_freed == __CPROVER_old(g_msg_freed) + (__CPROVER_old(lmq->lmq_len) - lmq->lmq_len))
__CPROVER_ensures((__CPROVER_return_value == 0 && g_j >= __CPROVER_old(g_msg_freed) && g_j < g_msg_freed) ==> g_msg_freed_at_j == __CPROVER_old(LMQ_VIEW(lmq, cap + (g_j - g_msg_freed))))
/* failure allocates nothing; success allocates exactly the new array */
__CPROVER_ensures(g_alloc_ok == __CPROVER_old(g_alloc_ok) + (__CPROVER_return_value == 0 ? 1 : 0))
__CPROVER_ensures(__CPROVER_return_value != 0 ==> g_free_calls == __CPROVER_old(g_free_calls))
/* old heap array released exactly when there was one */
__CPROVER_ensures(__CPROVER_return_value == 0 ==> (g_free_calls == __CPROVER_old(g_free_calls) + (__CPROVER_old(lmq->lmq_alloc) > 0 ? 1 : 0)))
    /* clang-format on */
    ;

size_t nni_lmq_len(nni_lmq *lmq)
    /* clang-format off */
__CPROVER_requires(__CPROVER_is_fresh(lmq, sizeof(nni_lmq)))
__CPROVER_assigns()
__CPROVER_ensures(__CPROVER_return_value == lmq->lmq_len)
    /* clang-format on */
    ;

size_t nni_lmq_cap(nni_lmq *lmq)
    /* clang-format off */
__CPROVER_requires(__CPROVER_is_fresh(lmq, sizeof(nni_lmq)))
__CPROVER_assigns()
__CPROVER_ensures(__CPROVER_return_value == lmq->lmq_cap)
    /* clang-format on */
    ;

bool nni_lmq_full(nni_lmq *lmq)
    /* clang-format off */
__CPROVER_requires(__CPROVER_is_fresh(lmq, sizeof(nni_lmq)))
__CPROVER_assigns()
__CPROVER_ensures(__CPROVER_return_value == (lmq->lmq_len >= lmq->lmq_cap))
    /* clang-format on */
    ;

bool nni_lmq_empty(nni_lmq *lmq)
    /* clang-format off */
__CPROVER_requires(__CPROVER_is_fresh(lmq, sizeof(nni_lmq)))
__CPROVER_assigns()
__CPROVER_ensures(__CPROVER_return_value == (lmq->lmq_len == 0))
    /* clang-format on */
    ;

#endif
