/* the clauses of the req0_ctx_send contract (included after the declarator of req0_ctx_send and of its wrapper
 * req0_sock_send, which must behave exactly like req0_ctx_send on the socket's own context) */
/* clang-format off */
__CPROVER_requires(S_CTX_PRE && S_ARG_PRE && aio == AIO_A && VP_NO_LOCK_HELD)
__CPROVER_requires(X_MSGS_PRE)
__CPROVER_requires(MSG_PRE(NEWMSG) && NEWMSG->m_refcnt.v < 1000 && CH_GHOST_PRE(&NEWMSG->m_body))
__CPROVER_requires(REQ_ID_INV(C1))
/* C15: the recv poll descriptor mirrors "the socket's own context holds an unread reply" (C1 is that context) */
#if REQ_CM == 1
__CPROVER_requires(g_pollr == (C1->rep_msg != NULL))
#endif
__CPROVER_assigns(X_CTX_ASSIGNS, VPY_GHOSTS)
__CPROVER_assigns(C1->req_len, C1->req_retry, C1->retry_time, SOCK->retry_active, AIO_A->a_msg, AIO_A->a_count, NEWMSG->m_header_len, NEWMSG->m_header_buf, NEWMSG->m_refcnt)
X_RESET_FREES
X_PIPE_ASSIGNS
#if X_ON_PIPE
__CPROVER_assigns(P3->node)
#endif
#if X_ST == 1
__CPROVER_assigns(C1->send_aio->a_msg, C1->req_msg->m_header_len)
#endif
#if S_RP == 1
__CPROVER_assigns(SOCK->ready_pipes.ll_head, SOCK->busy_pipes.ll_head, P1->node, P1->contexts.ll_head, P1->aio_send.a_msg)
#endif
#if S_Q2 == 1
__CPROVER_assigns(C2->send_node)
#endif
__CPROVER_ensures(VP_NO_LOCK_HELD && g_pipe_close_calls == OLD(g_pipe_close_calls) && g_yf.other == OLD(g_yf.other))
/* ---- closed socket: NNG_ECLOSED, the message stays with the caller, nothing is touched ---- */
__CPROVER_ensures(S_CLOSED ==> (FIN_ONCE(FIN_A, NNG_ECLOSED, OLD(NEWMSG)) && NEWMSG == OLD(NEWMSG) && NEWMSG->m_refcnt.v == OLD(NEWMSG->m_refcnt.v) && NEWMSG->m_header_len == OLD(NEWMSG->m_header_len)
    && FIN_NONE(FIN_B) && FIN_NONE(FIN_C) && g_start_calls == OLD(g_start_calls) && g_pipe_send_calls == OLD(g_pipe_send_calls) && g_free_calls == OLD(g_free_calls) && g_rr.sleep_calls == OLD(g_rr.sleep_calls)
    && C1->request_id == OLD(C1->request_id) && C1->req_msg == OLD(C1->req_msg) && C1->rep_msg == OLD(C1->rep_msg) && C1->recv_aio == OLD(C1->recv_aio) && C1->send_aio == OLD(C1->send_aio) && C1->conn_reset == OLD(C1->conn_reset)
    && S_LISTS_PRE && g_rr.idm_has == OLD(g_rr.idm_has) && g_rr.idm_remove_calls == OLD(g_rr.idm_remove_calls) && g_rr.idm_other_ops == OLD(g_rr.idm_other_ops) && g_rr.idm_alloc_calls == OLD(g_rr.idm_alloc_calls) && g_pollw == OLD(g_pollw) && g_pollr == OLD(g_pollr)))
/* ---- open socket: the previous request of this context is discarded (C04) ---- */
/* a pending receive (aio C) fails with NNG_ECANCELED, once */
#if X_RA == 2
__CPROVER_ensures(!S_CLOSED ==> FIN_ONCE(FIN_C, NNG_ECANCELED, AIO_C->a_msg))
#else
__CPROVER_ensures(FIN_NONE(FIN_C))
#endif
/* a superseded send that had not left yet (aio B) fails with NNG_ECANCELED and gets ITS message back: attached,
 * bare (no request id header), still referenced exactly as before, not released by the reset */
#if X_ST == 1
__CPROVER_ensures(!S_CLOSED ==> (FIN_ONCE(FIN_B, NNG_ECANCELED, OLD(C1->req_msg)) && AIO_B->a_msg == OLD(C1->req_msg) && OLD(C1->req_msg)->m_header_len == 0 && OLD(C1->req_msg)->m_refcnt.v == OLD(C1->req_msg->m_refcnt.v)
    && g_free_calls == OLD(g_free_calls)))
#else
__CPROVER_ensures(FIN_NONE(FIN_B))
#endif
/* the retained copy of a request already sent is released exactly once iff the context owns it (resend time of
 * THAT request > 0); a stored reply is released exactly once */
#if X_ST == 2 && X_RM == 1
__CPROVER_ensures((!S_CLOSED && OLD(C1->req_msg->m_refcnt.v) > 1) ==> (OLD(C1->req_msg)->m_refcnt.v == OLD(C1->req_msg->m_refcnt.v) - 1 && g_free_calls == OLD(g_free_calls)))
__CPROVER_ensures((!S_CLOSED && OLD(C1->req_msg->m_refcnt.v) == 1) ==> (__CPROVER_was_freed(OLD(C1->req_msg)) && g_free_calls == OLD(g_free_calls) + 2))
#elif X_ST == 3
__CPROVER_ensures((!S_CLOSED && OLD(C1->rep_msg->m_refcnt.v) > 1) ==> (OLD(C1->rep_msg)->m_refcnt.v == OLD(C1->rep_msg->m_refcnt.v) - 1 && g_free_calls == OLD(g_free_calls)))
__CPROVER_ensures((!S_CLOSED && OLD(C1->rep_msg->m_refcnt.v) == 1) ==> (__CPROVER_was_freed(OLD(C1->rep_msg)) && g_free_calls == OLD(g_free_calls) + 2))
#elif X_ST == 0
__CPROVER_ensures((!S_CLOSED && OLD(C1->rep_msg) == NULL) ==> g_free_calls == OLD(g_free_calls))
__CPROVER_ensures((!S_CLOSED && OLD(C1->rep_msg) != NULL) ==> g_free_calls <= OLD(g_free_calls) + 2)
#elif X_ST == 2
__CPROVER_ensures(g_free_calls == OLD(g_free_calls))
#endif
/* the old id leaves the map (a late reply to the superseded request matches nobody); entries of all other ids
 * (other contexts) are not disturbed */
__CPROVER_ensures((!S_CLOSED && IDM_TRACKS(OLD(C1->request_id)) && !(S_ACCEPTED && g_idm_key == (uint64_t) S_NEWID)) ==> !g_rr.idm_has)
__CPROVER_ensures((g_idm_key != (uint64_t) OLD(C1->request_id) && !(!S_CLOSED && g_idm_alloc_ok && g_idm_key == (uint64_t) S_NEWID)) ==> (g_rr.idm_has == OLD(g_rr.idm_has) && g_rr.idm_val == OLD(g_rr.idm_val)))
__CPROVER_ensures(!S_CLOSED ==> (C1->rep_msg == NULL && !C1->conn_reset && C1->recv_aio == NULL && X_OFF_PIPE && g_rr.idm_alloc_calls == OLD(g_rr.idm_alloc_calls) + 1))
/* the context and the id map agree, whatever happened */
__CPROVER_ensures(REQ_ID_INV(C1))
/* C15: ... and still does: a reply discarded by the new request must lower the descriptor (else it polls readable
 * while a non-blocking receive answers NNG_EAGAIN) */
#if REQ_CM == 1
__CPROVER_ensures(g_pollr == (C1->rep_msg != NULL))
#else
/* any other context: the socket's descriptor is none of its business */
__CPROVER_ensures(g_pollr == OLD(g_pollr))
#endif
/* ---- id allocation fails (C20): NNG_ENOMEM, lock released, the message stays with the caller untouched, the
 * context is idle (no request), nothing queued, nothing armed ---- */
__CPROVER_ensures(S_NOMEM ==> (FIN_ONCE(FIN_A, NNG_ENOMEM, OLD(NEWMSG)) && NEWMSG == OLD(NEWMSG) && NEWMSG->m_refcnt.v == OLD(NEWMSG->m_refcnt.v) && NEWMSG->m_header_len == OLD(NEWMSG->m_header_len)
    && S_CTX_IDLE && g_start_calls == OLD(g_start_calls) && g_pipe_send_calls == OLD(g_pipe_send_calls) && g_rr.sleep_calls == OLD(g_rr.sleep_calls) && SOCK->retry_active == OLD(SOCK->retry_active) && S_READY_PRE))
/* ---- no pipe ready and the aio layer refuses (non-blocking, stopped, aborted: C15): the aio layer completes
 * the aio; here: nothing queued, message still attached and still the caller's, the fresh id is released
 * again and the context is idle ---- */
__CPROVER_ensures(S_REFUSED ==> (g_start_calls == OLD(g_start_calls) + 1 && g_start_last == aio && FIN_NONE(FIN_A) && NEWMSG == OLD(NEWMSG) && NEWMSG->m_refcnt.v == OLD(NEWMSG->m_refcnt.v)
    && S_CTX_IDLE && g_pipe_send_calls == OLD(g_pipe_send_calls) && g_rr.sleep_calls == OLD(g_rr.sleep_calls) && SOCK->retry_active == OLD(SOCK->retry_active)
    && (g_idm_key == (uint64_t) S_NEWID ==> !g_rr.idm_has)))
/* ---- accepted: the new request ---- */
/* fresh id from the id map: request bit set, registered for this context; the header of the request is
 * exactly that id, big-endian; the body is untouched; the message is detached from the aio and owned here */
__CPROVER_ensures(S_ACCEPTED ==> (C1->request_id == S_NEWID && C1->request_id >= 0x80000000u && (g_idm_key == (uint64_t) S_NEWID ==> (g_rr.idm_has && g_rr.idm_val == g_c1))
    && AIO_A->a_msg == NULL && C1->req_msg == OLD(NEWMSG) && C1->req_msg->m_header_len == 4 && BE32(HDR(C1->req_msg)) == S_NEWID
    && C1->req_msg->m_body.ch_len == OLD(NEWMSG->m_body.ch_len) && C1->req_len == OLD(NEWMSG->m_body.ch_len) && C1->req_retry == C1->retry))
__CPROVER_ensures((S_ACCEPTED && g_k < OLD(NEWMSG->m_body.ch_len)) ==> C1->req_msg->m_body.ch_ptr[g_k] == g_b)
/* resending enabled (C12): deadline set, on the retry schedule (once), tick timer armed iff it was not;
 * disabled: not on the schedule, timer untouched */
__CPROVER_ensures((S_ACCEPTED && C1->retry > 0) ==> (C1->retry_time == g_now + (nni_time) C1->retry && LIST_IS_ONE(&SOCK->retry_queue, &C1->retry_node) && SOCK->retry_active
    && (OLD(SOCK->retry_active) ? g_rr.sleep_calls == OLD(g_rr.sleep_calls) : (g_rr.sleep_calls == OLD(g_rr.sleep_calls) + 1 && g_rr.sleep_aio == &SOCK->retry_aio && g_rr.sleep_ms == SOCK->retry_tick))))
__CPROVER_ensures((S_ACCEPTED && C1->retry <= 0) ==> (LIST_IS_EMPTY(&SOCK->retry_queue) && NODE_IDLE(&C1->retry_node) && g_rr.sleep_calls == OLD(g_rr.sleep_calls) && SOCK->retry_active == OLD(SOCK->retry_active)))
/* no pipe ready: the aio layer was consulted (once) and the request waits at the TAIL of the send queue */
__CPROVER_ensures(S_QUEUED ==> (g_start_calls == OLD(g_start_calls) + 1 && g_start_last == aio && FIN_NONE(FIN_A) && C1->send_aio == aio && S_SENDQ_C1_AT_TAIL && NODE_IDLE(&C1->pipe_node)
    && g_pipe_send_calls == OLD(g_pipe_send_calls) && C1->req_msg->m_refcnt.v == OLD(NEWMSG->m_refcnt.v) && g_pollw == OLD(g_pollw) && S_BUSY_UNCHANGED))
#if S_RP == 1
/* a pipe is ready (C15: the send proceeds in the call, nni_aio_start is NOT reached): the request goes out on
 * that pipe, the aio completes with 0 and without message, the context kept a reference iff resending is on */
__CPROVER_ensures(S_SENT ==> (g_start_calls == OLD(g_start_calls) && FIN_ONCE(FIN_A, 0, NULL) && C1->send_aio == NULL && AIO_A->a_count == OLD(AIO_A->a_count) + OLD(NEWMSG->m_body.ch_len)
    && g_pipe_send_calls == OLD(g_pipe_send_calls) + 1 && g_pipe_send_pipe == P1->pipe && g_pipe_send_aio == &P1->aio_send && g_pipe_send_msg == OLD(NEWMSG) && P1->aio_send.a_msg == OLD(NEWMSG)
    && LIST_IS_ONE(&P1->contexts, &C1->pipe_node) && S_SENDQ_WITHOUT_C1 && LIST_IS_EMPTY(&SOCK->ready_pipes) && S_BUSY_PLUS_P1 && !g_pollw
    && C1->req_msg->m_refcnt.v == OLD(NEWMSG->m_refcnt.v) + (C1->retry > 0 ? 1 : 0)))
#endif
COVER(S_CLOSED) COVER(S_NOMEM)
#if S_RP == 0
COVER(S_REFUSED) COVER(S_QUEUED && C1->retry > 0 && !OLD(SOCK->retry_active)) COVER(S_QUEUED && C1->retry > 0 && OLD(SOCK->retry_active)) COVER(S_QUEUED && C1->retry <= 0)
COVER(S_REFUSED && g_idm_key == (uint64_t) S_NEWID)
#else
COVER(S_SENT && C1->retry > 0) COVER(S_SENT && C1->retry <= 0) COVER(S_SENT && g_idm_key == (uint64_t) S_NEWID)
#endif
#if X_ST == 2 && X_RM == 1
COVER(!S_CLOSED && OLD(C1->req_msg->m_refcnt.v) == 1) COVER(!S_CLOSED && OLD(C1->req_msg->m_refcnt.v) > 1)
#endif
#if X_ST == 1 || X_ST == 2
COVER(!S_CLOSED && IDM_TRACKS(OLD(C1->request_id)) && OLD(g_rr.idm_has))
#endif
#if X_ST == 0
COVER(!S_CLOSED && OLD(C1->rep_msg) != NULL)
#endif
/* clang-format on */
