#!/usr/bin/env python3
"""generates modules/reqy/spec.json (units are products of constant case splits)"""
import json, os
HERE = os.path.dirname(os.path.abspath(__file__))
base = dict(grade="B", unwind=20, no_loop_contracts=True, solver="cadical", cbmc_flags=["--slice-formula"], timeout=600)
units = []
def U(name, entry, enforce, props, defines, note, bound=None, **kw):
    u = dict(name=name, entry=entry, enforce=enforce, props=props, defines=defines, note=note)
    u.update(base); u.update(kw)
    if u["grade"] != "P":
        u["bound"] = bound
    units.append(u)

CS_BOUND = ("lists hold at most the named members: context C1 in the named state of the request state machine (plus one other "
            "waiting context C2 where named), at most one ready pipe P1 and the busy pipe P3 that carries C1's previous request; "
            "socket closed/open, id allocation ok/failing, nni_aio_start ok/refusing, resend time, timer armed, message bytes: symbolic")
def st(ST, RT=0, RM=1, SQ=0, RA=0, CM=0):
    return ["REQ_CM %d" % CM, "X_ST %d" % ST, "X_RT %d" % RT, "X_RM %d" % RM, "X_SQ %d" % SQ, "X_RA %d" % RA, "X_SA 2"]
SEND = [
  ("idle_rp0", st(0), 0, 0, "context idle (no request; a stored reply may be left)"),
  ("idle_rp1", st(0), 1, 0, "context idle, a pipe is ready"),
  ("idle_m_rp0", st(0, CM=1), 0, 0, "socket's own context, idle"),
  ("idle_m_rp1", st(0, CM=1), 1, 0, "socket's own context, idle, a pipe is ready"),
  ("idle_rp0_q2", st(0), 0, 1, "context idle, another context already waits on the send queue (TAIL)"),
  ("sendpending_rt_recv_rp0", st(1, RT=1, RA=2), 0, 0, "previous request still waiting for a pipe (resend on) and a receive pending: both cancelled"),
  ("sendpending_nort_rp0", st(1, RT=0), 0, 0, "previous request still waiting for a pipe (resend off)"),
  ("sendpending_rt_rp0_q2", st(1, RT=1), 0, 1, "previous request waiting AHEAD of another context: the new one goes to the TAIL"),
  ("out_own_recv_rp0", st(2, RM=1, RA=2), 0, 0, "previous request outstanding with retained copy, receive pending"),
  ("out_own_recv_rp1", st(2, RM=1, RA=2), 1, 0, "previous request outstanding with retained copy, receive pending, a pipe is ready"),
  ("out_own_queued_rp0", st(2, RM=1, SQ=1), 0, 0, "previous request outstanding and waiting for a resend"),
  ("out_noretry_rp0", st(2, RM=2), 0, 0, "previous request outstanding, sent without a clone (pointer dangles)"),
  ("out_noretry_recv_m_rp1", st(2, RM=2, RA=2, CM=1), 1, 0, "socket's own context, previous request outstanding without clone, receive pending, a pipe is ready"),
  ("answered_rt_rp1", st(3, RT=1), 1, 0, "previous request answered, reply stored and never received, a pipe is ready"),
  ("answered_nort_rp0", st(3, RT=0), 0, 0, "previous request answered, reply stored and never received"),
]
for (n, d, rp, q2, note) in SEND:
    U("req0_ctx_send_" + n, "h_req0_ctx_send", "req0_ctx_send", ["C04", "C03", "C15", "C20", "C12"], d + ["S_RP %d" % rp, "S_Q2 %d" % q2], note, CS_BOUND)

spec = {
 "module": "reqy",
 "about": "the rest of src/sp/protocol/reqrep0/req.c (req0_ctx_send, req0_send_cb, req0_pipe_start, req0_ctx_fini/reset, req0_sock_close/send/recv) and src/sp/protocol/reqrep0/xreq.c",
 "sources": [{"path": "src/core/message.c"}, {"path": "src/core/list.c"}, {"path": "src/sp/protocol/reqrep0/req.c"}],
 "includes_before": ["modules/reqy/pre.h"],
 "includes_after": ["modules/reqy/post.h", "modules/reqx/contracts.h", "modules/reqx/harness.c", "modules/reqy/contracts.h", "modules/reqy/harness.c"],
 "excluded_checks": [
   {"match": "pointer relation:", "why": "message.c deliberately compares possibly-NULL chunk pointers (see modules/message/spec.json)"},
   {"match": "check_replace_ensures_was_freed_preconditions", "why": "DFCC library sanity check fails for every was_freed in a contract (DESIGN section 9)"}],
 "stubs": [],
 "not_decided": [],
 "units": units,
}
old = {}
p = os.path.join(HERE, "spec.json")
if os.path.exists(p):
    o = json.load(open(p))
    spec["stubs"] = o.get("stubs", []); spec["not_decided"] = o.get("not_decided", [])
json.dump(spec, open(p, "w"), indent=1)
print(len(units), "units")
