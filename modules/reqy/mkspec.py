#!/usr/bin/env python3
"""generates modules/reqy/spec.json (units are products of constant case splits)"""
import json, os
HERE = os.path.dirname(os.path.abspath(__file__))
base = dict(grade="B", unwind=20, no_loop_contracts=True, solver="cadical", cbmc_flags=["--slice-formula"], timeout=600)
units = []
def U(name, entry, enforce, props, defines, note, bound=None, **kw):
    u = dict(name=name, entry=entry, enforce=enforce, props=props, defines=defines, note=note)
    u.update(base); u.update(kw)
    if u["grade"] != "P":
        u["bound"] = bound
    if os.environ.get("REQY_COVER"):
        u["defines"] = u["defines"] + ["REQY_COVER 1"]
    units.append(u)

CS_BOUND = ("lists hold at most the named members: context C1 in the named state of the request state machine (plus one other "
            "waiting context C2 where named), at most one ready pipe P1 and the busy pipe P3 that carries C1's previous request; "
            "socket closed/open, id allocation ok/failing, nni_aio_start ok/refusing, resend time, timer armed, message bytes: symbolic")
def st(ST, RT=0, RM=1, SQ=0, RA=0, CM=0):
    return ["REQ_CM %d" % CM, "X_ST %d" % ST, "X_RT %d" % RT, "X_RM %d" % RM, "X_SQ %d" % SQ, "X_RA %d" % RA, "X_SA 2"]
SEND = [
  ("idle_rp0", st(0), 0, 0, "context idle (no request; a stored reply may be left)"),
  ("idle_rp1", st(0), 1, 0, "context idle, a pipe is ready"),
  ("idle_m_rp0", st(0, CM=1), 0, 0, "socket's own context, idle"),
  ("idle_m_rp1", st(0, CM=1), 1, 0, "socket's own context, idle, a pipe is ready"),
  ("idle_rp0_q2", st(0), 0, 1, "context idle, another context already waits on the send queue (TAIL)"),
  ("sendpending_rt_recv_rp0", st(1, RT=1, RA=2), 0, 0, "previous request still waiting for a pipe (resend on) and a receive pending: both cancelled"),
  ("sendpending_nort_rp0", st(1, RT=0), 0, 0, "previous request still waiting for a pipe (resend off)"),
  ("sendpending_rt_rp0_q2", st(1, RT=1), 0, 1, "previous request waiting AHEAD of another context: the new one goes to the TAIL"),
  ("out_own_recv_rp0", st(2, RM=1, RA=2), 0, 0, "previous request outstanding with retained copy, receive pending"),
  ("out_own_recv_rp1", st(2, RM=1, RA=2), 1, 0, "previous request outstanding with retained copy, receive pending, a pipe is ready"),
  ("out_own_queued_rp0", st(2, RM=1, SQ=1), 0, 0, "previous request outstanding and waiting for a resend"),
  ("out_noretry_rp0", st(2, RM=2), 0, 0, "previous request outstanding, sent without a clone (pointer dangles)"),
  ("out_noretry_recv_m_rp1", st(2, RM=2, RA=2, CM=1), 1, 0, "socket's own context, previous request outstanding without clone, receive pending, a pipe is ready"),
  ("answered_rt_rp1", st(3, RT=1), 1, 0, "previous request answered, reply stored and never received, a pipe is ready"),
  ("answered_nort_rp0", st(3, RT=0), 0, 0, "previous request answered, reply stored and never received"),
]
SKIP = set(os.environ.get("REQY_SKIP", "idle_m_rp1 out_noretry_recv_m_rp1").split())
for (n, d, rp, q2, note) in SEND:
    if n in SKIP:
        continue
    U("req0_ctx_send_" + n, "h_req0_ctx_send", "req0_ctx_send", ["C04", "C03", "C15", "C20", "C12"], d + ["S_RP %d" % rp, "S_Q2 %d" % q2], note, CS_BOUND,
      **({"solver": os.environ["REQY_SOLVER"]} if os.environ.get("REQY_SOLVER") and "_m_rp1" in n else {}))

# ---- socket-level wrappers ----
for (n, d, note) in [
  ("idle_rp0", st(0, CM=1), "socket's own context idle"),
  ("sendpending_rt_recv_rp0", st(1, RT=1, RA=2, CM=1), "previous request still waiting for a pipe and a receive pending: both cancelled"),
  ("out_own_recv_rp0", st(2, RM=1, RA=2, CM=1), "previous request outstanding with retained copy, receive pending"),
]:
    U("req0_sock_send_" + n, "h_req0_sock_send", "req0_sock_send", ["C04", "C03", "C15", "C20", "C12"], d + ["S_RP 0", "S_Q2 0"], "nng_send path: " + note, CS_BOUND)
U("req0_sock_recv", "h_req0_sock_recv", "req0_sock_recv", ["C04", "C12", "C15"], ["REQ_CM 1"], "nng_recv path: receive on the socket's own context", grade="P")
# ---- req0_ctx_reset / req0_ctx_fini ----
RS_BOUND = "context C1 in the named state of the request state machine (lists hold at most C1 / the busy pipe P3 of its request); message contents, ids, reference counts symbolic"
for (n, d, note) in [
  ("idle", st(0), "no request; a stored reply may be left"),
  ("out_own", st(2, RM=1, RA=2), "request outstanding with retained copy (resend time > 0), receive pending"),
  ("out_own_queued", st(2, RM=1, SQ=1), "request outstanding, waiting for a resend"),
  ("out_noretry", st(2, RM=2), "request outstanding, sent without a clone: req_msg dangles, must not be touched"),
  ("answered", st(3, RT=1), "reply stored and never received"),
]:
    U("req0_ctx_reset_" + n, "h_req0_ctx_reset", "req0_ctx_reset", ["C03", "C04"], d, note, RS_BOUND)
for (n, d, cl, note) in [
  ("idle", st(0), 1, "no request"),
  ("idle_m", st(0, CM=1), 1, "the socket's own context (req0_sock_fini)"),
  ("sendpending_rt_recv", st(1, RT=1, RA=2), 1, "request still waiting for a pipe, receive pending: both fail NNG_ECLOSED, the message goes back"),
  ("sendpending_nort", st(1, RT=0), 2, "request still waiting for a pipe (resend off)"),
  ("out_own_recv", st(2, RM=1, RA=2), 2, "request outstanding with retained copy, receive pending"),
  ("out_own_queued", st(2, RM=1, SQ=1), 1, "request outstanding, waiting for a resend"),
  ("out_noretry_recv", st(2, RM=2, RA=2), 1, "request outstanding without a clone, receive pending"),
  ("answered_rt", st(3, RT=1), 1, "reply stored and never received"),
  ("answered_nort", st(3, RT=0), 2, "reply stored and never received (resend off)"),
]:
    U("req0_ctx_fini_" + n, "h_req0_ctx_fini", "req0_ctx_fini", ["C03", "C04", "C02"], d + ["F_CL %d" % cl], note, RS_BOUND + "; socket context list holds C1 (F_CL=1) or the socket's own context and C1 (F_CL=2)")
U("req0_sock_close", "h_req0_sock_close", "req0_sock_close", ["C03"], [], "closed flag set under the lock", grade="P")
# ---- req0_send_cb / req0_pipe_start ----
AV_BOUND = "pipe P1 (the argument), at most one other ready pipe P2, the busy pipe P3 of C1's previous transmission; at most the context C1 waits on the send queue; pipe/socket closed flags, peer protocol, resend time, reference counts symbolic"
U("req0_send_cb_failed", "h_req0_send_cb", "req0_send_cb", ["C03"], st(0) + ["SC_FAILED 1"], "send failed: message released once, pipe closed, no list touched", grade="P")
for (n, d, rp2, note) in [
  ("nowait", st(0), 0, "nobody waits: P1 becomes the only ready pipe, writable raised"),
  ("nowait_rp2", st(0), 1, "nobody waits, P2 already ready: P1 goes to the TAIL"),
  ("nowait_out", st(2, RM=1), 0, "C1's request is out on busy P3, nobody waits"),
  ("first_rt", st(1, RT=1), 0, "C1 waits for its first transmission (resend on)"),
  ("first_nort_recv", st(1, RT=0, RA=2), 0, "C1 waits for its first transmission (resend off), receive already pending"),
  ("resend", st(2, RM=1, SQ=1), 0, "C1 waits for a resend (previous transmission on busy P3)"),
]:
    U("req0_send_cb_" + n, "h_req0_send_cb", "req0_send_cb", ["C12", "C15", "C03"], d + ["SC_RP2 %d" % rp2], note, AV_BOUND)
    U("req0_pipe_start_" + n, "h_req0_pipe_start", "req0_pipe_start", ["C12", "C15", "C04"], d + ["SC_RP2 %d" % rp2], note, AV_BOUND)

# ---- xreq.c ----
XQ = dict(grade="P")
U("xreq0_pipe_start", "h_xreq0_pipe_start", "xreq0_pipe_start", ["C03", "C04"], [], "wrong peer rejected; else get + receive armed once each", **XQ)
U("xreq0_pipe_close", "h_xreq0_pipe_close", "xreq0_pipe_close", ["C03"], [], "four aios closed", **XQ)
U("xreq0_getq_cb", "h_xreq0_getq_cb", "xreq0_getq_cb", ["C03"], [], "message from the send queue handed to the pipe once; failed get disconnects", **XQ)
U("xreq0_send_cb", "h_xreq0_send_cb", "xreq0_send_cb", ["C03"], [], "successful send: next message asked for", **XQ)
U("xreq0_send_cb_failed", "h_xreq0_send_cb", "xreq0_send_cb", ["C03"], ["XQ_FAILED 1"], "failed send: message released once, peer disconnected", **XQ)
U("xreq0_putq_cb", "h_xreq0_putq_cb", "xreq0_putq_cb", ["C03"], [], "reply queued: forgotten by the pipe, receive re-armed once", **XQ)
U("xreq0_putq_cb_failed", "h_xreq0_putq_cb", "xreq0_putq_cb", ["C03"], ["XQ_FAILED 1"], "queue refused: reply released once, peer disconnected", **XQ)
U("xreq0_recv_cb_failed", "h_xreq0_recv_cb", "xreq0_recv_cb", ["C11"], ["XQ_FAILED 1"], "receive completed with an error", **XQ)
U("xreq0_recv_cb_class", "h_xreq0_recv_cb", "xreq0_recv_cb", ["C11", "C03", "C04"], ["XQ_TRACK 2"], "backtrace loop closed by a woven loop invariant (one generic iteration); every body, every length; postconditions: outcome classes (which words carry the request bit)", grade="P", no_loop_contracts=False)
U("xreq0_recv_cb_bytes", "h_xreq0_recv_cb", "xreq0_recv_cb", ["C11", "C03", "C04"], ["XQ_TRACK 1"], "same loop invariant; postconditions: where every body byte ends up (header in order, rest of the body unchanged)", grade="P", no_loop_contracts=False)
XREQ_WEAVE = {"loops": {"xreq0_recv_cb": [{
    "assigns": "end, msg->m_header_buf, msg->m_header_len, msg->m_body, msg->m_refcnt, g_env, g_free_calls",
    "invariants": [
        "(msg->m_header_len & 3) == 0 && msg->m_header_len <= 64",
        "RR_LOOP_INV(msg, (msg->m_header_len >> 2), 0)",
        "XQ_LOOP_BYTES(msg, (msg->m_header_len >> 2), end)",
        "g_pipe_close_calls == __CPROVER_loop_entry(g_pipe_close_calls) && g_pipe_recv_calls == __CPROVER_loop_entry(g_pipe_recv_calls) && g_pipe_send_calls == __CPROVER_loop_entry(g_pipe_send_calls) && g_free_calls == __CPROVER_loop_entry(g_free_calls)"],
    "decreases": "68 - msg->m_header_len"}]}}

STUBS = [
 "include/env_proto.h: nni_pipe_send/recv/close/id/peer (ghost records), nni_aio_finish*/start/close (ghost records; nni_aio_start answers with the environment value g_aio_start_ok), pollable raise/clear as ghost flags, nni_clock = g_now, stats/log no-ops, nni_atomic_* sequential, nni_panic = assertion failure",
 "modules/xrep/env.h: nni_id_get/set/remove/alloc32 as a finite map with ONE tracked key g_idm_key that is a free ghost (so it stands for every key).  nni_id_alloc32 stands for the idhash contract (modules/idhash): it fails with NNG_ENOMEM without writing the id (environment value g_idm_alloc_ok), or hands out an id of the configured range [0x80000000, 0xffffffff] that is not in use (ASSUMED: two __CPROVER_assume in the stub) and registers it; nni_sleep_aio, nni_aio_bump_count, nni_aio_completions_* and nni_msgq_aio_get/aio_put as ghost records",
 "modules/reqx/post.h + modules/reqy/post.h: nni_aio_finish* are routed through wrappers that keep a completion record per user aio (A, B, C: count, result, attached message) and the completion before the last one; nni_copyin_ms = environment value; nng_msg_header_append = the one-line public wrapper of src/nng.c (calls the real nni_msg_header_append); nni_sock_sendq/recvq = any pointer",
 "include/env_sync.h: nni_mtx_* ghost lock discipline (interleavings NOT explored: every callback is verified as one atomic step under the socket lock)",
 "include/env_alloc.h: nni_alloc/nni_zalloc/nni_free (may fail; sized-free assertion)",
 "the real src/core/message.c and src/core/list.c are compiled into the unit and executed (not stubbed); socket, contexts, pipes and user aios are static harness objects linked in the shape the unit names (constant case split, DESIGN section 9), messages are __CPROVER_is_fresh heap objects",
 "check class 'pointer relation:' excluded (message.c compares possibly-NULL chunk pointers), DFCC sanity check check_replace_ensures_was_freed_preconditions excluded (DESIGN section 9)",
]
NOT_DECIDED = [
 "req0_ctx_send on the socket's own context WITH a ready pipe (units req0_ctx_send_idle_m_rp1, req0_ctx_send_out_noretry_recv_m_rp1; the same shapes for req0_sock_send): cbmc did not finish in 600 s (cadical; kissat tried) - context and list heads are sub-objects of one socket object; the same shapes with a separately allocated context are decided (req0_ctx_send_*_rp1), and the socket's own context is decided for every shape without a ready pipe (req0_ctx_send_idle_m_rp0, req0_sock_send_*)",
 "req0_ctx_send with a ready pipe AND other contexts waiting, or with more than one ready pipe / more than one other waiting context: not built (the first is not a stable state of the socket: req0_run_send_queue runs until one of the two lists is empty)",
 "req0_ctx_close: there is no such function in this tree (context close = req0_ctx_fini, which is under contract)",
 "req0_sock_fini, req0_sock_init, req0_pipe_init/fini/stop, req0_ctx_init, option getters/setters other than NNG_OPT_REQ_RESENDTIME on a context (modules/req): no contract (object life cycle in the aio/socket core, not in these files)",
 "xreq0_sock_send/xreq0_sock_recv (one-line forwards to nni_msgq_aio_put/get, covered by the msgqueue module), xreq0_pipe_stop/fini/init, xreq0_sock_* life cycle and NNG_OPT_MAXTTL: no contract",
 "xreq0_recv_cb: one unit with ALL postconditions took 502 s (decided, passed); registered as two units that split the postconditions (outcome classes / byte positions) over the same loop invariant",
 "C12 liveness (eventually answered), C04/C12 over interleavings of several contexts and pipes: not expressible as function contracts; every unit is one callback as an atomic step under the socket lock",
 "observations recorded, not claimed as defects: (a) when nni_aio_start refuses, the message stays attached to the aio but its header has already been replaced by the 4-byte request id; (b) req0_ctx_fini hands an unsent request back to its aio with the request-id header still in place, whereas req0_ctx_send (supersede) and req0_ctx_cancel_send clear the header first",
]

spec = {
 "module": "reqy",
 "about": "the rest of src/sp/protocol/reqrep0/req.c (req0_ctx_send, req0_send_cb, req0_pipe_start, req0_ctx_fini/reset, req0_sock_close/send/recv) and src/sp/protocol/reqrep0/xreq.c",
 "sources": [{"path": "src/core/message.c"}, {"path": "src/core/list.c"}, {"path": "src/sp/protocol/reqrep0/req.c"}, {"path": "src/sp/protocol/reqrep0/xreq.c", "weave": XREQ_WEAVE}],
 "includes_before": ["modules/reqy/pre.h"],
 "includes_after": ["modules/reqy/post.h", "modules/reqx/contracts.h", "modules/reqx/harness.c", "modules/reqy/contracts.h", "modules/reqy/harness.c"],
 "excluded_checks": [
   {"match": "pointer relation:", "why": "message.c deliberately compares possibly-NULL chunk pointers (see modules/message/spec.json)"},
   {"match": "check_replace_ensures_was_freed_preconditions", "why": "DFCC library sanity check fails for every was_freed in a contract (DESIGN section 9)"}],
 "stubs": STUBS,
 "not_decided": NOT_DECIDED,
 "units": units,
}
p = os.path.join(HERE, "spec.json")
json.dump(spec, open(p, "w"), indent=1)
print(len(units), "units")
