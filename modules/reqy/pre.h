/* modules/reqy/pre.h -- included BEFORE the real sources of the reqy TU (req.c + xreq.c).
 * Everything of modules/reqx is reused by inclusion (ghosts, spec macros, depth-two completion log).  On top
 * of it: a completion record PER USER AIO (the harness aios A, B, C are static objects), so that a function
 * that completes up to three aios (req0_ctx_send: pending receive, superseded send, the new send) can be
 * specified exactly: "this aio was completed exactly once, with this result and this message attached". */
/* xreq.c: the woven loop invariant of xreq0_recv_cb carries its own byte facts (XQ_LOOP_BYTES, spec.h): the
 * generic RR_LOOP_INV of modules/xrep/spec.h is used for the geometry only */
#define RR_TRACK 0
#include "modules/reqx/pre.h"
#undef nni_aio_finish
#undef nni_aio_finish_sync
#undef nni_aio_finish_error
#define nni_aio_finish vpy_aio_finish
#define nni_aio_finish_sync vpy_aio_finish_sync
#define nni_aio_finish_error vpy_aio_finish_error
#include "modules/reqy/spec.h"
struct vpy_fin {
	size_t   calls; /* completions of this aio */
	int      rv;    /* result of the last one */
	nni_msg *msg;   /* message attached at completion time */
	size_t   count;
};
struct vpy_fins {
	struct vpy_fin a, b, c; /* aio A (= g_aio1), B (= g_aio2), C (= g_aio3) */
	size_t         other;   /* completions of any other aio */
} g_yf;
void vpy_aio_finish(nni_aio *aio, nng_err rv, size_t count);
void vpy_aio_finish_sync(nni_aio *aio, nng_err rv, size_t count);
void vpy_aio_finish_error(nni_aio *aio, nng_err rv);
#define VPY_GHOSTS g_yf
/* xreq.c: pre-state body geometry for the woven loop invariant (same ghosts as modules/xrep/pre.h) */
size_t g_len0, g_off0, g_cap0;
