/* harnesses of module reqy; the state builders (vp_mk_sock, vp_mk_ctx, vp_mk_pipe, vp_ctx_state, vp_list_add,
 * VP_HAVOC_GHOSTS) are those of modules/reqx/harness.c (included before this file) */
#define VPY_HAVOC()                                                          \
	do {                                                                 \
		g_yf.a.calls = nondet_size_t(); g_yf.a.rv = nondet_int(); g_yf.a.msg = nondet_ptr(); g_yf.a.count = nondet_size_t(); \
		g_yf.b.calls = nondet_size_t(); g_yf.b.rv = nondet_int(); g_yf.b.msg = nondet_ptr(); g_yf.b.count = nondet_size_t(); \
		g_yf.c.calls = nondet_size_t(); g_yf.c.rv = nondet_int(); g_yf.c.msg = nondet_ptr(); g_yf.c.count = nondet_size_t(); \
		g_yf.other = nondet_size_t();                                \
		g_len0 = nondet_size_t(); g_off0 = nondet_size_t(); g_cap0 = nondet_size_t(); \
		__CPROVER_assume(g_yf.a.calls < ((size_t) 1 << 40) && g_yf.b.calls < ((size_t) 1 << 40) && g_yf.c.calls < ((size_t) 1 << 40) && g_yf.other < ((size_t) 1 << 40)); \
	} while (0)
#ifndef S_RP
#define S_RP 0
#endif
#ifndef S_Q2
#define S_Q2 0
#endif
void h_req0_ctx_send(void)
{
	VP_HAVOC_GHOSTS();
	VPY_HAVOC();
	req0_sock *s = vp_mk_sock();
	req0_ctx  *c = vp_ctx_state(s);
#if X_ON_PIPE
	vp_list_add(&s->busy_pipes, &((req0_pipe *) g_pp3)->node);
#endif
#if S_RP == 1
	req0_pipe *p1 = vp_mk_pipe(s); g_p1 = p1; vp_list_add(&s->ready_pipes, &p1->node);
#endif
#if S_Q2 == 1
	req0_ctx *c2 = vp_mk_ctx(s, 0); g_c2 = c2; vp_list_add(&s->send_queue, &c2->send_node);
#endif
	req0_ctx_send(c, &vp_aio_a);
	VP_CANARY();
}

#ifndef F_CL
#define F_CL 1
#endif
void h_req0_ctx_reset(void)
{
	VP_HAVOC_GHOSTS();
	VPY_HAVOC();
	req0_sock *s = vp_mk_sock();
	req0_ctx  *c = vp_ctx_state(s);
#if X_ON_PIPE
	vp_list_add(&s->busy_pipes, &((req0_pipe *) g_pp3)->node);
#endif
	req0_ctx_reset(c);
	VP_CANARY();
}
void h_req0_ctx_fini(void)
{
	VP_HAVOC_GHOSTS();
	VPY_HAVOC();
	req0_sock *s = vp_mk_sock();
	req0_ctx  *c = vp_ctx_state(s);
#if X_ON_PIPE
	vp_list_add(&s->busy_pipes, &((req0_pipe *) g_pp3)->node);
#endif
#if F_CL == 2
	vp_list_add(&s->contexts, &s->master.sock_node);
#endif
	vp_list_add(&s->contexts, &c->sock_node);
	req0_ctx_fini(c);
	VP_CANARY();
}
void h_req0_sock_close(void)
{
	void *arg;
	VP_HAVOC_GHOSTS();
	VPY_HAVOC();
	req0_sock_close(arg);
	VP_CANARY();
}
#ifndef SC_RP2
#define SC_RP2 0
#endif
/* a pipe P1 becomes available: -DAV_BUSY=1 it is on the busy list (send completion), 0 on no list (pipe start) */
static req0_pipe *vp_avail_state(int busy)
{
	req0_sock *s = vp_mk_sock();
	(void) vp_ctx_state(s);
#if X_ON_PIPE
	vp_list_add(&s->busy_pipes, &((req0_pipe *) g_pp3)->node);
#endif
	req0_pipe *p1 = vp_mk_pipe(s); g_p1 = p1;
	if (busy) {
		vp_list_add(&s->busy_pipes, &p1->node);
	}
#if SC_RP2 == 1
	req0_pipe *p2 = vp_mk_pipe(s); g_p2 = p2; vp_list_add(&s->ready_pipes, &p2->node);
#endif
	return (p1);
}
void h_req0_send_cb(void)
{
	VP_HAVOC_GHOSTS();
	VPY_HAVOC();
	req0_pipe *p1 = vp_avail_state(1);
	req0_send_cb(p1);
	VP_CANARY();
}
void h_req0_pipe_start(void)
{
	VP_HAVOC_GHOSTS();
	VPY_HAVOC();
	req0_pipe *p1 = vp_avail_state(0);
	req0_pipe_start(p1);
	VP_CANARY();
}

/* ---- xreq.c ---- */
void h_xreq0_pipe_start(void) { void *arg; VP_HAVOC_GHOSTS(); VPY_HAVOC(); xreq0_pipe_start(arg); VP_CANARY(); }
void h_xreq0_pipe_close(void) { void *arg; VP_HAVOC_GHOSTS(); VPY_HAVOC(); xreq0_pipe_close(arg); VP_CANARY(); }
void h_xreq0_getq_cb(void) { void *arg; VP_HAVOC_GHOSTS(); VPY_HAVOC(); xreq0_getq_cb(arg); VP_CANARY(); }
void h_xreq0_send_cb(void) { void *arg; VP_HAVOC_GHOSTS(); VPY_HAVOC(); xreq0_send_cb(arg); VP_CANARY(); }
void h_xreq0_putq_cb(void) { void *arg; VP_HAVOC_GHOSTS(); VPY_HAVOC(); xreq0_putq_cb(arg); VP_CANARY(); }
void h_xreq0_recv_cb(void) { void *arg; VP_HAVOC_GHOSTS(); VPY_HAVOC(); xreq0_recv_cb(arg); VP_CANARY(); }

/* ---- socket-level wrappers ---- */
void h_req0_sock_send(void)
{
	VP_HAVOC_GHOSTS();
	VPY_HAVOC();
	req0_sock *s = vp_mk_sock();
	(void) vp_ctx_state(s); /* -DREQ_CM=1: C1 is the socket's own context */
#if X_ON_PIPE
	vp_list_add(&s->busy_pipes, &((req0_pipe *) g_pp3)->node);
#endif
#if S_RP == 1
	req0_pipe *p1 = vp_mk_pipe(s); g_p1 = p1; vp_list_add(&s->ready_pipes, &p1->node);
#endif
	req0_sock_send(s, &vp_aio_a);
	VP_CANARY();
}
void h_req0_sock_recv(void)
{
	nni_aio *aio;
	VP_HAVOC_GHOSTS();
	VPY_HAVOC();
	req0_sock *s = vp_mk_sock();
	req0_sock_recv(s, aio);
	VP_CANARY();
}
