/* Contracts for src/sp/protocol/reqrep0/xreq.c (raw REQ; C03 message conservation, C11 peer input, C04 backtrace) */
/* clang-format off */
#define XQP ((xreq0_pipe *) arg)
#define XQS (((xreq0_pipe *) arg)->req)
#define XQ_PIPE_PRE (__CPROVER_is_fresh(arg, sizeof(struct xreq0_pipe)) && __CPROVER_is_fresh(XQS, sizeof(struct xreq0_sock)) && VP_NO_LOCK_HELD)
#define XQ_REL_ONCE(m) \
	__CPROVER_ensures(OLD((m)->m_refcnt.v) > 1 ==> (OLD(m)->m_refcnt.v == OLD((m)->m_refcnt.v) - 1 && g_free_calls == OLD(g_free_calls))) \
	__CPROVER_ensures(OLD((m)->m_refcnt.v) == 1 ==> (__CPROVER_was_freed(OLD(m)) && g_free_calls == OLD(g_free_calls) + 2))
#define XQ_NO_MSGQ (g_rr.put_calls == OLD(g_rr.put_calls) && g_rr.get_calls == OLD(g_rr.get_calls))

/* ---- xreq0_pipe_start: wrong peer => NNG_EPROTO, nothing armed; else the pipe asks the send queue for a message
 * and arms its first receive, each exactly once ---- */
static int xreq0_pipe_start(void *arg)
__CPROVER_requires(XQ_PIPE_PRE)
__CPROVER_assigns(VP_PROTO_GHOST_LIST, VP_RR_GHOST_LIST)
__CPROVER_ensures(VP_NO_LOCK_HELD && RV == (g_pipe_peer != 0x31 ? NNG_EPROTO : 0) && g_pipe_close_calls == OLD(g_pipe_close_calls) && g_pipe_send_calls == OLD(g_pipe_send_calls) && g_rr.put_calls == OLD(g_rr.put_calls))
__CPROVER_ensures(g_pipe_peer != 0x31 ==> (g_rr.get_calls == OLD(g_rr.get_calls) && g_pipe_recv_calls == OLD(g_pipe_recv_calls)))
__CPROVER_ensures(g_pipe_peer == 0x31 ==> (g_rr.get_calls == OLD(g_rr.get_calls) + 1 && g_rr.get_q == XQS->uwq && g_rr.get_aio == &XQP->aio_getq
    && g_pipe_recv_calls == OLD(g_pipe_recv_calls) + 1 && g_pipe_recv_pipe == XQP->pipe && g_pipe_recv_aio == &XQP->aio_recv))
COVER(g_pipe_peer == 0x31) COVER(g_pipe_peer != 0x31)
;
/* ---- xreq0_pipe_close: all four aios of the pipe are closed (queued messages stay where they are: the aio layer
 * hands them back through the callbacks below) ---- */
static void xreq0_pipe_close(void *arg)
__CPROVER_requires(XQ_PIPE_PRE)
__CPROVER_assigns(VP_PROTO_GHOST_LIST)
__CPROVER_ensures(VP_NO_LOCK_HELD && g_aio_close_calls == OLD(g_aio_close_calls) + 4 && g_pipe_close_calls == OLD(g_pipe_close_calls) && g_pipe_send_calls == OLD(g_pipe_send_calls) && g_pipe_recv_calls == OLD(g_pipe_recv_calls) && g_fin_calls == OLD(g_fin_calls))
;
/* ---- xreq0_getq_cb: a message taken from the send queue is handed to the pipe, exactly once (conservation:
 * SENT); a failed get disconnects and hands nothing on ---- */
static void xreq0_getq_cb(void *arg)
__CPROVER_requires(XQ_PIPE_PRE)
__CPROVER_assigns(XQP->aio_send.a_msg, XQP->aio_getq.a_msg, VP_PROTO_GHOST_LIST)
__CPROVER_ensures(VP_NO_LOCK_HELD && g_free_calls == OLD(g_free_calls) && g_pipe_recv_calls == OLD(g_pipe_recv_calls))
__CPROVER_ensures(XQP->aio_getq.a_result != 0 ==> (g_pipe_close_calls == OLD(g_pipe_close_calls) + 1 && g_pipe_close_last == XQP->pipe && g_pipe_send_calls == OLD(g_pipe_send_calls)
    && XQP->aio_send.a_msg == OLD(XQP->aio_send.a_msg) && XQP->aio_getq.a_msg == OLD(XQP->aio_getq.a_msg)))
__CPROVER_ensures(XQP->aio_getq.a_result == 0 ==> (g_pipe_close_calls == OLD(g_pipe_close_calls) && g_pipe_send_calls == OLD(g_pipe_send_calls) + 1 && g_pipe_send_pipe == XQP->pipe && g_pipe_send_aio == &XQP->aio_send
    && g_pipe_send_msg == OLD(XQP->aio_getq.a_msg) && XQP->aio_send.a_msg == OLD(XQP->aio_getq.a_msg) && XQP->aio_getq.a_msg == NULL))
COVER(XQP->aio_getq.a_result != 0) COVER(XQP->aio_getq.a_result == 0)
;
/* ---- xreq0_send_cb: failed send => the message is released exactly once and the peer disconnected (conservation:
 * FREED); successful send => the transport consumed it, the next message is asked for, once ---- */
#ifdef XQ_FAILED
static void xreq0_send_cb(void *arg)
__CPROVER_requires(XQ_PIPE_PRE)
__CPROVER_requires(XQP->aio_send.a_result != 0 && MSG_PRE(XQP->aio_send.a_msg) && XQP->aio_send.a_msg->m_refcnt.v < 1000)
__CPROVER_assigns(XQP->aio_send.a_msg, *(XQP->aio_send.a_msg), VP_PROTO_GHOST_LIST, g_free_calls)
__CPROVER_frees(XQP->aio_send.a_msg, XQP->aio_send.a_msg->m_body.ch_buf)
__CPROVER_ensures(VP_NO_LOCK_HELD && XQP->aio_send.a_msg == NULL && g_pipe_close_calls == OLD(g_pipe_close_calls) + 1 && g_pipe_close_last == XQP->pipe && g_pipe_send_calls == OLD(g_pipe_send_calls))
XQ_REL_ONCE(XQP->aio_send.a_msg)
COVER(OLD(XQP->aio_send.a_msg->m_refcnt.v) == 1) COVER(OLD(XQP->aio_send.a_msg->m_refcnt.v) > 1)
;
#else
static void xreq0_send_cb(void *arg)
__CPROVER_requires(XQ_PIPE_PRE)
__CPROVER_requires(XQP->aio_send.a_result == 0)
__CPROVER_assigns(VP_RR_GHOST_LIST)
__CPROVER_ensures(VP_NO_LOCK_HELD && g_free_calls == OLD(g_free_calls) && g_rr.get_calls == OLD(g_rr.get_calls) + 1 && g_rr.get_q == XQS->uwq && g_rr.get_aio == &XQP->aio_getq && g_rr.put_calls == OLD(g_rr.put_calls))
;
#endif
/* ---- xreq0_putq_cb: the receive queue took the reply (conservation: QUEUED, the pipe forgets it) and the next
 * receive is armed, once; the queue refused (closed) => the reply is released exactly once and the peer
 * disconnected, no receive armed ---- */
#ifdef XQ_FAILED
static void xreq0_putq_cb(void *arg)
__CPROVER_requires(XQ_PIPE_PRE)
__CPROVER_requires(XQP->aio_putq.a_result != 0 && MSG_PRE(XQP->aio_putq.a_msg) && XQP->aio_putq.a_msg->m_refcnt.v < 1000)
__CPROVER_assigns(XQP->aio_putq.a_msg, *(XQP->aio_putq.a_msg), VP_PROTO_GHOST_LIST, g_free_calls)
__CPROVER_frees(XQP->aio_putq.a_msg, XQP->aio_putq.a_msg->m_body.ch_buf)
__CPROVER_ensures(VP_NO_LOCK_HELD && XQP->aio_putq.a_msg == NULL && g_pipe_close_calls == OLD(g_pipe_close_calls) + 1 && g_pipe_close_last == XQP->pipe && g_pipe_recv_calls == OLD(g_pipe_recv_calls))
XQ_REL_ONCE(XQP->aio_putq.a_msg)
COVER(OLD(XQP->aio_putq.a_msg->m_refcnt.v) == 1)
;
#else
static void xreq0_putq_cb(void *arg)
__CPROVER_requires(XQ_PIPE_PRE)
__CPROVER_requires(XQP->aio_putq.a_result == 0)
__CPROVER_assigns(XQP->aio_putq.a_msg, VP_PROTO_GHOST_LIST)
__CPROVER_ensures(VP_NO_LOCK_HELD && XQP->aio_putq.a_msg == NULL && g_free_calls == OLD(g_free_calls) && g_pipe_close_calls == OLD(g_pipe_close_calls)
    && g_pipe_recv_calls == OLD(g_pipe_recv_calls) + 1 && g_pipe_recv_pipe == XQP->pipe && g_pipe_recv_aio == &XQP->aio_recv)
;
#endif
/* ---- xreq0_recv_cb (C11: for ALL body bytes a peer can send; C04/C13: the backtrace goes to the header) ----
 * A reply body is  w_0 .. w_n payload : big-endian words, w_n the first one with the request bit.
 * Shorter than 4 bytes => peer disconnected, reply released.  Otherwise the words up to and including the first
 * one with the request bit move to the header (the FIRST FOUR body bytes always do; exactly those four when the
 * first word is a request id, as a REP peer sends it) and the message is handed to the receive queue, once.  No
 * request id within the first 16 words or before the body ends => disconnected, released.  The receive is NOT
 * re-armed here: xreq0_putq_cb does that (so it is armed exactly once per reply). */
#define XQM (((xreq0_pipe *) arg)->aio_recv.a_msg)
#define XQLEN OLD(XQM->m_body.ch_len)
#define XQ_HL (OLD(XQM)->m_header_len)
#define XQ_DELIVERED (g_rr.put_calls == OLD(g_rr.put_calls) + 1)
#define XQ_DISCONN (g_pipe_close_calls == OLD(g_pipe_close_calls) + 1)
#ifdef XQ_FAILED
static void xreq0_recv_cb(void *arg)
__CPROVER_requires(XQ_PIPE_PRE)
__CPROVER_requires(XQP->aio_recv.a_result != 0)
__CPROVER_assigns(VP_PROTO_GHOST_LIST)
__CPROVER_ensures(VP_NO_LOCK_HELD && XQ_DISCONN && g_pipe_close_last == XQP->pipe && g_pipe_recv_calls == OLD(g_pipe_recv_calls) && g_fin_calls == OLD(g_fin_calls))
;
#else
static void xreq0_recv_cb(void *arg)
__CPROVER_requires(XQ_PIPE_PRE)
__CPROVER_requires(XQP->aio_recv.a_result == 0 && RR_WIRE_MSG(XQM) && CH_GHOST_PRE(&XQM->m_body) && RR_BODY_GHOSTS(XQM))
__CPROVER_assigns(XQP->aio_recv.a_msg, XQP->aio_putq.a_msg, VP_PROTO_GHOST_LIST, VP_RR_GHOST_LIST, g_free_calls)
__CPROVER_assigns(*XQM)
__CPROVER_frees(XQM, XQM->m_body.ch_buf)
__CPROVER_ensures(VP_NO_LOCK_HELD && XQP->aio_recv.a_msg == NULL && g_pipe_recv_calls == OLD(g_pipe_recv_calls) && g_pipe_send_calls == OLD(g_pipe_send_calls) && g_rr.get_calls == OLD(g_rr.get_calls))
/* exactly one of: handed up once and kept / disconnected and released once */
__CPROVER_ensures((XQ_DELIVERED && g_pipe_close_calls == OLD(g_pipe_close_calls) && !__CPROVER_was_freed(OLD(XQM)) && g_free_calls == OLD(g_free_calls))
    || (g_rr.put_calls == OLD(g_rr.put_calls) && XQ_DISCONN && g_pipe_close_last == XQP->pipe && __CPROVER_was_freed(OLD(XQM)) && g_free_calls == OLD(g_free_calls) + 2))
/* shorter than a request id: disconnected */
__CPROVER_ensures(XQLEN < 4 ==> XQ_DISCONN)
/* delivered ==> header = w_0..w_n (at most 16 words); body = the rest */
__CPROVER_ensures(XQ_DELIVERED ==> (XQ_HL >= 4 && (XQ_HL & 3) == 0 && XQ_HL <= MSG_HDRCAP && XQ_HL <= XQLEN && OLD(XQM)->m_body.ch_len == XQLEN - XQ_HL && OLD(XQM)->m_pipe == g_pipe_id && OLD(XQM)->m_refcnt.v == 1
    && g_rr.put_q == XQS->urq && g_rr.put_aio == &XQP->aio_putq && g_rr.put_msg == OLD(XQM) && XQP->aio_putq.a_msg == OLD(XQM)))
#if XQ_TRACK != 1
/* a reply as a REP peer sends it (first word is the request id): delivered, exactly the first four bytes moved */
__CPROVER_ensures((XQLEN >= 4 && g_k == 0 && RR_HB(g_b)) ==> (XQ_DELIVERED && XQ_HL == 4))
/* disconnected ==> no request id among the first min(words, 16) words */
__CPROVER_ensures(XQ_DISCONN ==> RR_NO_END_BELOW(VP_MIN(XQLEN >> 2, (size_t) 16)))
/* delivered ==> w_n (the last header word) is the first word with the request bit */
__CPROVER_ensures(XQ_DELIVERED ==> (RR_NO_END_BELOW((XQ_HL >> 2) - 1) && (g_k == XQ_HL - 4 ==> RR_HB(g_b))))
#endif
#if XQ_TRACK != 2
/* the header is the first XQ_HL body bytes in order, the body is the rest, unchanged */
__CPROVER_ensures((XQ_DELIVERED && g_k < XQ_HL) ==> HDR(OLD(XQM))[g_k] == g_b)
__CPROVER_ensures((XQ_DELIVERED && g_k >= XQ_HL && g_k < XQLEN) ==> OLD(XQM)->m_body.ch_ptr[g_k - XQ_HL] == g_b)
#endif
COVER(XQLEN < 4) COVER(XQ_DELIVERED && XQ_HL == 4) COVER(XQ_DELIVERED && XQ_HL == 64) COVER(XQ_DISCONN && XQLEN >= 68) COVER(XQ_DISCONN && XQLEN == 10) COVER(XQ_DELIVERED && XQ_HL == 12 && XQLEN == 13)
;
#endif
/* clang-format on */
