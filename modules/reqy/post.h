/* modules/reqy/post.h -- included AFTER the real sources */
#include "modules/reqx/post.h"
#undef nni_aio_finish
#undef nni_aio_finish_sync
#undef nni_aio_finish_error
static void vpy_note(nni_aio *aio, nng_err rv, size_t count)
{
	struct vpy_fin *f = ((void *) aio == g_aio1) ? &g_yf.a : ((void *) aio == g_aio2) ? &g_yf.b : ((void *) aio == g_aio3) ? &g_yf.c : NULL;
	if (f == NULL) {
		g_yf.other++;
		return;
	}
	f->calls++;
	f->rv    = (int) rv;
	f->msg   = aio->a_msg;
	f->count = count;
}
void vpy_aio_finish(nni_aio *aio, nng_err rv, size_t count) { vpy_note(aio, rv, count); vpx_aio_finish(aio, rv, count); }
void vpy_aio_finish_sync(nni_aio *aio, nng_err rv, size_t count) { vpy_note(aio, rv, count); vpx_aio_finish_sync(aio, rv, count); }
void vpy_aio_finish_error(nni_aio *aio, nng_err rv) { vpy_note(aio, rv, 0); vpx_aio_finish_error(aio, rv); }
/* environment of xreq.c not modelled elsewhere */
nni_msgq *nni_sock_sendq(nni_sock *s) { (void) s; return ((nni_msgq *) nondet_ptr()); }
nni_msgq *nni_sock_recvq(nni_sock *s) { (void) s; return ((nni_msgq *) nondet_ptr()); }
/* src/nng.c is not part of the TU: the public wrapper xreq.c calls, verbatim */
int nng_msg_header_append(nng_msg *msg, const void *data, size_t sz) { return (nni_msg_header_append(msg, data, sz)); }
