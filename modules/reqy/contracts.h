/* Contracts of module reqy: the rest of src/sp/protocol/reqrep0/req.c (req0_ctx_send, req0_send_cb,
 * req0_pipe_start, req0_ctx_fini, req0_ctx_reset, req0_sock_close, req0_sock_send/recv) and
 * src/sp/protocol/reqrep0/xreq.c.  Properties C04, C12, C03, C15, C20 (C11 for peer input in xreq).
 *
 * HARNESS-BUILT STATE as in modules/reqx (static objects, constant list links); the state of the context C1
 * before the call is one of the states of the request state machine of modules/reqx/contracts_x.h
 * (-DX_ST, -DX_RT, -DX_RM, -DX_SQ, -DX_RA, -DX_SA), built by vp_ctx_state() of modules/reqx/harness.c. */
#ifndef VP_REQY_CONTRACTS_H
#define VP_REQY_CONTRACTS_H
/* clang-format off */
#define AIO_NEW AIO_A                     /* the aio passed to the function under contract */
#define NEWMSG (AIO_A->a_msg)             /* its message */
#define FIN_A g_yf.a
#define FIN_B g_yf.b
#define FIN_C g_yf.c
#define FIN_ONCE(f, e, m) ((f).calls == OLD((f).calls) + 1 && (f).rv == (int) (e) && (f).msg == (m))
#define FIN_NONE(f) ((f).calls == OLD((f).calls))
/* reachability probes (only with -DREQY_COVER, never in a registered unit): each must FAIL */
#ifdef REQY_COVER
#define COVER(c) __CPROVER_ensures(!(c))
#else
#define COVER(c)
#endif

/* ====================================================================== */
/* req0_ctx_send (C04: a new request discards the previous one; fresh id with the request bit, registered;
 * C03: ownership of the old and the new message; C15: non-blocking rule; C20: id allocation failure; C12: retry
 * schedule and timer armed iff resending is enabled).
 * -DS_RP=1: one pipe P1 is ready (else none).  -DS_Q2=1: another context C2 already waits on the send queue
 * (only with S_RP=0).  The socket may be closed or open, id allocation may fail, nni_aio_start may refuse,
 * the resend time (ctx->retry) has any value, the tick timer may be armed or not: all symbolic in every unit. */
#ifndef S_RP
#define S_RP 0
#endif
#ifndef S_Q2
#define S_Q2 0
#endif
#if S_Q2 == 0
#define S_SENDQ_PRE (X_ON_SENDQ ? LIST_IS_ONE(&SOCK->send_queue, &C1->send_node) : (LIST_IS_EMPTY(&SOCK->send_queue) && NODE_IDLE(&C1->send_node)))
#define S_SENDQ_WITHOUT_C1 (LIST_IS_EMPTY(&SOCK->send_queue) && NODE_IDLE(&C1->send_node))
#define S_SENDQ_C1_AT_TAIL (LIST_IS_ONE(&SOCK->send_queue, &C1->send_node))
#else
#define S_SENDQ_PRE (CTX_OK(g_c2) && DISTINCT(g_c1, g_c2) && (X_ON_SENDQ ? LIST_IS_TWO(&SOCK->send_queue, &C1->send_node, &C2->send_node) : (LIST_IS_ONE(&SOCK->send_queue, &C2->send_node) && NODE_IDLE(&C1->send_node))))
#define S_SENDQ_WITHOUT_C1 (LIST_IS_ONE(&SOCK->send_queue, &C2->send_node) && NODE_IDLE(&C1->send_node))
#define S_SENDQ_C1_AT_TAIL (LIST_IS_TWO(&SOCK->send_queue, &C2->send_node, &C1->send_node))
#endif
#define S_RETRYQ_PRE (X_ON_RETRY ? LIST_IS_ONE(&SOCK->retry_queue, &C1->retry_node) : (LIST_IS_EMPTY(&SOCK->retry_queue) && NODE_IDLE(&C1->retry_node)))
#if X_ON_PIPE
#define S_PIPE3_PRE (PIPE_OK(g_pp3) && LIST_IS_ONE(&P3->contexts, &C1->pipe_node) && LIST_IS_ONE(&SOCK->busy_pipes, &P3->node))
#define S_BUSY_UNCHANGED (LIST_IS_ONE(&SOCK->busy_pipes, &P3->node))
#define S_BUSY_PLUS_P1 (LIST_IS_TWO(&SOCK->busy_pipes, &P3->node, &P1->node))
#else
#define S_PIPE3_PRE (NODE_IDLE(&C1->pipe_node) && LIST_IS_EMPTY(&SOCK->busy_pipes))
#define S_BUSY_UNCHANGED (LIST_IS_EMPTY(&SOCK->busy_pipes))
#define S_BUSY_PLUS_P1 (LIST_IS_ONE(&SOCK->busy_pipes, &P1->node))
#endif
#if S_RP == 1
#if X_ON_PIPE
#define S_READY_PRE (PIPE_OK(g_p1) && DISTINCT(g_p1, g_pp3) && LIST_IS_ONE(&SOCK->ready_pipes, &P1->node) && LIST_IS_EMPTY(&P1->contexts))
#else
#define S_READY_PRE (PIPE_OK(g_p1) && LIST_IS_ONE(&SOCK->ready_pipes, &P1->node) && LIST_IS_EMPTY(&P1->contexts))
#endif
#else
#define S_READY_PRE (LIST_IS_EMPTY(&SOCK->ready_pipes))
#endif
#define S_LISTS_PRE (S_SENDQ_PRE && S_RETRYQ_PRE && S_PIPE3_PRE && S_READY_PRE)
#define S_CTX_PRE (SOCK_PRE && Q_C1_PRE && X_AIOS_PRE && X_RECV_AIO_PRE && X_SEND_AIO_PRE && S_LISTS_PRE && X_STATE_PRE)
/* the outcomes */
#define S_CLOSED (OLD(SOCK->closed))
#define S_NOMEM (!S_CLOSED && !g_idm_alloc_ok)
#define S_REFUSED (!S_CLOSED && g_idm_alloc_ok && S_RP == 0 && !g_aio_start_ok)
#define S_QUEUED (!S_CLOSED && g_idm_alloc_ok && S_RP == 0 && g_aio_start_ok)
#define S_SENT (!S_CLOSED && g_idm_alloc_ok && S_RP == 1)
#define S_ACCEPTED (S_QUEUED || S_SENT)
#define S_NEWID (g_idm_alloc_id)
/* the context has no request: what req0_ctx_recv answers with NNG_ESTATE, on no list, nothing pending */
#define S_CTX_IDLE (CTX_IS_RESET(C1) && C1->send_aio == NULL && C1->recv_aio == NULL && S_SENDQ_WITHOUT_C1 && LIST_IS_EMPTY(&SOCK->retry_queue) && X_OFF_PIPE)
static void req0_ctx_send(void *arg, nni_aio *aio)
#define S_ARG_PRE (arg == g_c1)
#include "modules/reqy/send_clauses.h"
#undef S_ARG_PRE
;
/* req0_sock_send: the socket-level send IS a send on the socket's own context (units with -DREQ_CM=1) */
static void req0_sock_send(void *arg, nni_aio *aio)
#define S_ARG_PRE (arg == g_sock && g_c1 == (void *) &SOCK->master)
#include "modules/reqy/send_clauses.h"
#undef S_ARG_PRE
;
/* req0_sock_recv: the socket-level receive IS a receive on the socket's own context: same clauses as the contract
 * of req0_ctx_recv in modules/req(x)/contracts.h with the context = &sock->master (C04 state machine, C15) */
#define SR_C (&SOCK->master)
#define SR_REFUSED (OLD(SR_C->recv_aio) != NULL || (OLD(SR_C->req_msg) == NULL && OLD(SR_C->rep_msg) == NULL))
static void req0_sock_recv(void *arg, nni_aio *aio)
__CPROVER_requires(OBJ_OK(g_sock, struct req0_sock) && arg == g_sock && SR_C->sock == SOCK && VP_NO_LOCK_HELD)
__CPROVER_requires(__CPROVER_is_fresh(aio, sizeof(nni_aio)))
__CPROVER_requires(SR_C->rep_msg == NULL || MSG_PRE(SR_C->rep_msg))
__CPROVER_requires(g_pollr_addr == &SOCK->readable && g_pollw_addr == &SOCK->writable)
__CPROVER_assigns(aio->a_msg, SR_C->recv_aio, SR_C->rep_msg, SR_C->conn_reset, VP_PROTO_GHOST_LIST, VP_SYNC_GHOSTS, VPX_FIN_GHOSTS, VPY_GHOSTS)
__CPROVER_ensures(VP_NO_LOCK_HELD)
/* out of order (no request outstanding, or a receive already pending): NNG_ESTATE (or the latched NNG_ECONNRESET), nothing changes */
__CPROVER_ensures(SR_REFUSED ==> (g_fin_calls == OLD(g_fin_calls) + 1 && g_fin_last == aio && g_fin_last_rv == (OLD(SR_C->conn_reset) ? NNG_ECONNRESET : NNG_ESTATE) && !SR_C->conn_reset
    && g_start_calls == OLD(g_start_calls) && SR_C->recv_aio == OLD(SR_C->recv_aio) && SR_C->rep_msg == OLD(SR_C->rep_msg) && SR_C->req_msg == OLD(SR_C->req_msg) && g_pollr == OLD(g_pollr)))
/* reply not there yet: must wait, the aio layer is consulted once; refused there => nothing recorded */
__CPROVER_ensures((!SR_REFUSED && OLD(SR_C->rep_msg) == NULL) ==> (g_start_calls == OLD(g_start_calls) + 1 && g_start_last == aio && g_fin_calls == OLD(g_fin_calls) && SR_C->recv_aio == (g_aio_start_ok ? aio : NULL) && SR_C->rep_msg == NULL))
/* reply stored: completes in the call with exactly that reply, once, the aio layer is not consulted; not readable any more */
__CPROVER_ensures((!SR_REFUSED && OLD(SR_C->rep_msg) != NULL) ==> (g_start_calls == OLD(g_start_calls) && g_fin_calls == OLD(g_fin_calls) + 1 && g_fin_last == aio && g_fin_last_rv == 0 && g_fin_last_msg == OLD(SR_C->rep_msg)
    && aio->a_msg == OLD(SR_C->rep_msg) && g_fin_last_count == aio->a_msg->m_body.ch_len && SR_C->rep_msg == NULL && SR_C->recv_aio == NULL && !g_pollr))
COVER(SR_REFUSED && OLD(SR_C->conn_reset)) COVER(!SR_REFUSED && OLD(SR_C->rep_msg) == NULL && !g_aio_start_ok) COVER(!SR_REFUSED && OLD(SR_C->rep_msg) != NULL)
;
/* ====================================================================== */
/* req0_ctx_reset (C03: everything the context owns is released exactly once; C04: the id leaves the map).
 * Called with the lock held, after the callers have detached a pending send (send_aio == NULL): states 0, 2, 3. */
#define R_CTX ((req0_ctx *) ctx)
void req0_ctx_reset(req0_ctx *ctx)
__CPROVER_requires(S_CTX_PRE && ctx == C1 && X_ST != 1)
__CPROVER_requires(X_MSGS_PRE)
__CPROVER_assigns(X_CTX_ASSIGNS)
X_RESET_FREES
X_PIPE_ASSIGNS
#if X_ON_PIPE
__CPROVER_assigns(P3->node)
#endif
/* no request, no stored reply, nothing latched, on no list; a pending receive is NOT touched (the caller's job) */
__CPROVER_ensures(CTX_IS_RESET(C1) && S_SENDQ_WITHOUT_C1 && LIST_IS_EMPTY(&SOCK->retry_queue) && X_OFF_PIPE && S_BUSY_UNCHANGED && C1->recv_aio == OLD(C1->recv_aio) && C1->send_aio == NULL)
__CPROVER_ensures(g_fin_calls == OLD(g_fin_calls) && g_start_calls == OLD(g_start_calls) && g_pipe_send_calls == OLD(g_pipe_send_calls) && g_lock_ops == OLD(g_lock_ops))
/* the id is released; no other entry is disturbed */
__CPROVER_ensures(X_ID_RELEASED)
__CPROVER_ensures(g_idm_key != (uint64_t) OLD(C1->request_id) ==> (g_rr.idm_has == OLD(g_rr.idm_has) && g_rr.idm_val == OLD(g_rr.idm_val)))
/* retained copy: released once iff owned (resend time of the sent request > 0); stored reply: released once */
X_DISCARD_HEAP
#if X_ST == 2 && X_RM == 2
__CPROVER_ensures(C1->req_msg == NULL)
#endif
#if X_ST == 2
COVER(IDM_TRACKS(OLD(C1->request_id)) && OLD(g_rr.idm_has))
#endif
#if X_ST == 2 && X_RM == 1
COVER(OLD(C1->req_msg->m_refcnt.v) == 1) COVER(OLD(C1->req_msg->m_refcnt.v) > 1)
#endif
#if X_ST == 3
COVER(OLD(C1->rep_msg->m_refcnt.v) == 1)
#endif
COVER(1)
;

/* ====================================================================== */
/* req0_ctx_fini (context close; C03: everything the context owns is released exactly once, a message still
 * waiting to be sent goes back to its sender; C02/C04: pending operations fail with NNG_ECLOSED, once each).
 * States 0..3 of C1 as for req0_ctx_send; the pending receive is aio C, the pending send aio B.  C1 is on the
 * socket's context list (-DF_CL=1: alone, 2: behind the socket's own context). */
#ifndef F_CL
#define F_CL 1
#endif
#if F_CL == 1
#define F_CL_PRE LIST_IS_ONE(&SOCK->contexts, &C1->sock_node)
#define F_CL_POST LIST_IS_EMPTY(&SOCK->contexts)
#else
#define F_CL_PRE LIST_IS_TWO(&SOCK->contexts, &SOCK->master.sock_node, &C1->sock_node)
#define F_CL_POST LIST_IS_ONE(&SOCK->contexts, &SOCK->master.sock_node)
#endif
static void req0_ctx_fini(void *arg)
__CPROVER_requires(S_CTX_PRE && arg == g_c1 && VP_NO_LOCK_HELD && F_CL_PRE)
__CPROVER_requires(X_MSGS_PRE)
__CPROVER_requires(REQ_ID_INV(C1))
__CPROVER_assigns(X_CTX_ASSIGNS, VPY_GHOSTS, C1->sock_node, SOCK->contexts.ll_head)
#if F_CL == 2
__CPROVER_assigns(SOCK->master.sock_node)
#endif
X_RESET_FREES
X_PIPE_ASSIGNS
#if X_ON_PIPE
__CPROVER_assigns(P3->node)
#endif
#if X_ST == 1
__CPROVER_assigns(C1->send_aio->a_msg)
#endif
__CPROVER_ensures(VP_NO_LOCK_HELD && g_yf.other == OLD(g_yf.other) && FIN_NONE(FIN_A) && g_start_calls == OLD(g_start_calls) && g_pipe_send_calls == OLD(g_pipe_send_calls) && g_pipe_close_calls == OLD(g_pipe_close_calls))
#if X_RA == 2
__CPROVER_ensures(FIN_ONCE(FIN_C, NNG_ECLOSED, AIO_C->a_msg))
#else
__CPROVER_ensures(FIN_NONE(FIN_C))
#endif
#if X_ST == 1
/* the request never left: it goes back to its sender, attached to the failing aio, not released */
__CPROVER_ensures(FIN_ONCE(FIN_B, NNG_ECLOSED, OLD(C1->req_msg)) && AIO_B->a_msg == OLD(C1->req_msg) && OLD(C1->req_msg)->m_refcnt.v == OLD(C1->req_msg->m_refcnt.v))
#else
__CPROVER_ensures(FIN_NONE(FIN_B))
#endif
__CPROVER_ensures(CTX_IS_RESET(C1) && C1->send_aio == NULL && C1->recv_aio == NULL && S_SENDQ_WITHOUT_C1 && LIST_IS_EMPTY(&SOCK->retry_queue) && X_OFF_PIPE && S_BUSY_UNCHANGED && NODE_IDLE(&C1->sock_node) && F_CL_POST)
__CPROVER_ensures(X_ID_RELEASED)
__CPROVER_ensures(g_idm_key != (uint64_t) OLD(C1->request_id) ==> (g_rr.idm_has == OLD(g_rr.idm_has) && g_rr.idm_val == OLD(g_rr.idm_val)))
X_DISCARD_HEAP
#if X_ST == 1 || X_ST == 2
COVER(IDM_TRACKS(OLD(C1->request_id)) && OLD(g_rr.idm_has))
#endif
#if X_ST == 2 && X_RM == 1
COVER(OLD(C1->req_msg->m_refcnt.v) == 1) COVER(OLD(C1->req_msg->m_refcnt.v) > 1)
#endif
COVER(1)
;

/* ====================================================================== */
/* req0_sock_close: the socket is marked closed under its lock; nothing else (P, loop-free) */
static void req0_sock_close(void *arg)
__CPROVER_requires(__CPROVER_is_fresh(arg, sizeof(struct req0_sock)) && VP_NO_LOCK_HELD)
__CPROVER_assigns(((req0_sock *) arg)->closed, VP_SYNC_GHOSTS)
__CPROVER_ensures(((req0_sock *) arg)->closed && VP_NO_LOCK_HELD && g_lock_ops == OLD(g_lock_ops) + 2)
;

/* ====================================================================== */
/* req0_send_cb and req0_pipe_start: a pipe P1 (= arg) becomes available.
 * -DSC_RP2=1: another pipe P2 is already ready (only when nobody waits).  C1 is in a state of the request state
 * machine; if that state has it on the send queue (X_ST=1 first transmission pending with send aio B; X_ST=2,
 * X_SQ=1 waiting for a resend, previous transmission on the busy pipe P3) it is the one waiting context. */
#ifndef SC_RP2
#define SC_RP2 0
#endif
#define AVP ((req0_pipe *) arg)
#if X_ON_PIPE
#define AV_P3_PRE (PIPE_OK(g_pp3) && DISTINCT(g_pp3, g_p1) && LIST_IS_ONE(&P3->contexts, &C1->pipe_node))
#define AV_BUSY_OTHERS (LIST_IS_ONE(&SOCK->busy_pipes, &P3->node))
#define AV_BUSY_WITH_P1 (LIST_IS_TWO(&SOCK->busy_pipes, &P3->node, &P1->node))
#else
#define AV_P3_PRE (NODE_IDLE(&C1->pipe_node))
#define AV_BUSY_OTHERS (LIST_IS_EMPTY(&SOCK->busy_pipes))
#define AV_BUSY_WITH_P1 (LIST_IS_ONE(&SOCK->busy_pipes, &P1->node))
#endif
#if SC_RP2 == 1
#define AV_READY_OTHERS (LIST_IS_ONE(&SOCK->ready_pipes, &P2->node))
#define AV_READY_WITH_P1 (LIST_IS_TWO(&SOCK->ready_pipes, &P2->node, &P1->node))
#define AV_P2_PRE (PIPE_OK(g_p2) && DISTINCT(g_p1, g_p2) && LIST_IS_EMPTY(&P2->contexts))
#else
#define AV_READY_OTHERS (LIST_IS_EMPTY(&SOCK->ready_pipes))
#define AV_READY_WITH_P1 (LIST_IS_ONE(&SOCK->ready_pipes, &P1->node))
#define AV_P2_PRE (1)
#endif
#define AV_COMMON_PRE (SOCK_PRE && Q_C1_PRE && X_AIOS_PRE && X_RECV_AIO_PRE && X_SEND_AIO_PRE && X_STATE_PRE && PIPE_OK(g_p1) && arg == g_p1 && LIST_IS_EMPTY(&P1->contexts) \
    && AV_P3_PRE && AV_P2_PRE && S_SENDQ_PRE && S_RETRYQ_PRE && VP_NO_LOCK_HELD)
#define AV_ASSIGNS SOCK->ready_pipes.ll_head, SOCK->busy_pipes.ll_head, SOCK->send_queue.ll_head, SOCK->retry_queue.ll_head, P1->node, P1->contexts.ll_head, P1->aio_send.a_msg, \
    C1->send_node, C1->retry_node, C1->pipe_node, C1->send_aio, VP_PROTO_GHOST_LIST, VP_RR_GHOST_LIST, VP_SYNC_GHOSTS, VPX_FIN_GHOSTS, VPY_GHOSTS
/* the waiting context C1 went out on P1 (C12: clone and retry schedule iff resending is on for that request) */
#define AV_C1_SENT_ON_P1                                                                                     \
	(NODE_IDLE(&C1->send_node) && LIST_IS_EMPTY(&SOCK->send_queue) && LIST_IS_ONE(&P1->contexts, &C1->pipe_node) && X_OFF_PIPE && C1->send_aio == NULL && \
	    P1->aio_send.a_msg == C1->req_msg && C1->req_msg == OLD(C1->req_msg) && C1->req_msg->m_refcnt.v == OLD(C1->req_msg->m_refcnt.v) + (C1->req_retry > 0 ? 1 : 0) && \
	    g_pipe_send_calls == OLD(g_pipe_send_calls) + 1 && g_pipe_send_pipe == P1->pipe && g_pipe_send_aio == &P1->aio_send && g_pipe_send_msg == C1->req_msg && \
	    (C1->req_retry > 0 ? LIST_IS_ONE(&SOCK->retry_queue, &C1->retry_node) : (LIST_IS_EMPTY(&SOCK->retry_queue) && NODE_IDLE(&C1->retry_node))) && \
	    AV_READY_OTHERS && AV_BUSY_WITH_P1 && !g_pollw)
#if X_ON_SENDQ
#define AV_C1_ASSIGNS __CPROVER_assigns(C1->req_msg->m_refcnt)
#else
#define AV_C1_ASSIGNS
#endif
#if X_ON_PIPE
#define AV_P3_ASSIGNS __CPROVER_assigns(P3->node, P3->contexts.ll_head)
#else
#define AV_P3_ASSIGNS
#endif
#if SC_RP2 == 1
#define AV_P2_ASSIGNS __CPROVER_assigns(P2->node)
#else
#define AV_P2_ASSIGNS
#endif

/* ---- req0_send_cb (C03: a failed send releases the message once and disconnects; C15/C12: after a successful
 * send the pipe goes back to the TAIL of the ready list / the next waiting request goes out on it; a closed pipe
 * or a closed socket is left alone) ---- */
#ifdef SC_FAILED
static void req0_send_cb(void *arg)
__CPROVER_requires(SOCK_PRE && PIPE_OK(g_p1) && arg == g_p1 && VP_NO_LOCK_HELD)
__CPROVER_requires(AVP->aio_send.a_result != 0 && MSG_PRE(AVP->aio_send.a_msg) && AVP->aio_send.a_msg->m_refcnt.v < 1000)
__CPROVER_assigns(AVP->aio_send.a_msg, *(AVP->aio_send.a_msg), VP_PROTO_GHOST_LIST, g_free_calls)
__CPROVER_frees(AVP->aio_send.a_msg, AVP->aio_send.a_msg->m_body.ch_buf)
__CPROVER_ensures(VP_NO_LOCK_HELD && g_lock_ops == OLD(g_lock_ops) && AVP->aio_send.a_msg == NULL)
__CPROVER_ensures(g_pipe_close_calls == OLD(g_pipe_close_calls) + 1 && g_pipe_close_last == AVP->pipe && g_pipe_send_calls == OLD(g_pipe_send_calls) && g_fin_calls == OLD(g_fin_calls) && g_pollw == OLD(g_pollw))
/* the pipe's reference to the message is dropped exactly once (a context that retained a copy keeps its own) */
__CPROVER_ensures(OLD(AVP->aio_send.a_msg->m_refcnt.v) > 1 ==> (OLD(AVP->aio_send.a_msg)->m_refcnt.v == OLD(AVP->aio_send.a_msg->m_refcnt.v) - 1 && g_free_calls == OLD(g_free_calls)))
__CPROVER_ensures(OLD(AVP->aio_send.a_msg->m_refcnt.v) == 1 ==> (__CPROVER_was_freed(OLD(AVP->aio_send.a_msg)) && g_free_calls == OLD(g_free_calls) + 2))
COVER(OLD(AVP->aio_send.a_msg->m_refcnt.v) == 1) COVER(OLD(AVP->aio_send.a_msg->m_refcnt.v) > 1)
;
#else
#define SC_IGNORED (OLD(P1->closed) || OLD(SOCK->closed))
static void req0_send_cb(void *arg)
__CPROVER_requires(AV_COMMON_PRE && AV_BUSY_WITH_P1 && AV_READY_OTHERS)
__CPROVER_requires(X_MSGS_PRE)
__CPROVER_requires(AVP->aio_send.a_result == 0)
__CPROVER_assigns(AV_ASSIGNS)
AV_C1_ASSIGNS
AV_P3_ASSIGNS
AV_P2_ASSIGNS
#if X_ST == 1
__CPROVER_assigns(AIO_B->a_count)
#endif
__CPROVER_ensures(VP_NO_LOCK_HELD && g_pipe_close_calls == OLD(g_pipe_close_calls) && g_fin_calls == OLD(g_fin_calls) && g_start_calls == OLD(g_start_calls))
/* pipe closed meanwhile, or socket closed: the pipe is NOT put back on the ready list, nothing is sent */
__CPROVER_ensures(SC_IGNORED ==> (AV_BUSY_WITH_P1 && AV_READY_OTHERS && S_SENDQ_PRE && S_RETRYQ_PRE && g_pollw == OLD(g_pollw) && g_pipe_send_calls == OLD(g_pipe_send_calls) && g_rr.comp_added == OLD(g_rr.comp_added) && C1->send_aio == OLD(C1->send_aio)))
#if X_ON_SENDQ
__CPROVER_ensures(!SC_IGNORED ==> AV_C1_SENT_ON_P1)
#if X_ST == 1
/* first transmission: the sender's aio completes with 0 - deferred until the lock is released (completion list) */
__CPROVER_ensures(!SC_IGNORED ==> (g_rr.comp_added == OLD(g_rr.comp_added) + 1 && g_rr.comp_last == AIO_B && g_rr.comp_last_rv == 0 && AIO_B->a_count == OLD(AIO_B->a_count) + C1->req_len))
#else
__CPROVER_ensures(g_rr.comp_added == OLD(g_rr.comp_added))
#endif
#else
/* nobody waits: the pipe is ready again, at the TAIL of the ready list; the socket is writable (C15) */
__CPROVER_ensures(!SC_IGNORED ==> (AV_READY_WITH_P1 && AV_BUSY_OTHERS && g_pollw && g_pipe_send_calls == OLD(g_pipe_send_calls) && g_rr.comp_added == OLD(g_rr.comp_added) && S_SENDQ_PRE && S_RETRYQ_PRE && LIST_IS_EMPTY(&P1->contexts)))
#endif
COVER(OLD(P1->closed)) COVER(OLD(SOCK->closed) && !OLD(P1->closed)) COVER(!SC_IGNORED)
#if X_ON_SENDQ
COVER(!SC_IGNORED && C1->req_retry > 0) COVER(!SC_IGNORED && C1->req_retry <= 0)
#endif
;
#endif

/* ---- req0_pipe_start (wrong peer => NNG_EPROTO and nothing happens; else ready, the first receive armed exactly
 * once, send queue run) ---- */
#define PS_REJECTED (g_pipe_peer != 0x31)
static int req0_pipe_start(void *arg)
__CPROVER_requires(AV_COMMON_PRE && NODE_IDLE(&P1->node) && AV_BUSY_OTHERS && AV_READY_OTHERS)
__CPROVER_requires(X_MSGS_PRE)
__CPROVER_assigns(AV_ASSIGNS)
AV_C1_ASSIGNS
AV_P3_ASSIGNS
AV_P2_ASSIGNS
#if X_ST == 1
__CPROVER_assigns(AIO_B->a_count)
#endif
__CPROVER_ensures(VP_NO_LOCK_HELD && g_pipe_close_calls == OLD(g_pipe_close_calls) && g_start_calls == OLD(g_start_calls) && g_rr.comp_added == OLD(g_rr.comp_added) && FIN_NONE(FIN_A) && FIN_NONE(FIN_C) && g_yf.other == OLD(g_yf.other))
__CPROVER_ensures(RV == (PS_REJECTED ? NNG_EPROTO : 0))
__CPROVER_ensures(PS_REJECTED ==> (g_lock_ops == OLD(g_lock_ops) && g_pipe_recv_calls == OLD(g_pipe_recv_calls) && g_pipe_send_calls == OLD(g_pipe_send_calls) && g_pollw == OLD(g_pollw) && FIN_NONE(FIN_B)
    && NODE_IDLE(&P1->node) && AV_BUSY_OTHERS && AV_READY_OTHERS && S_SENDQ_PRE && S_RETRYQ_PRE && C1->send_aio == OLD(C1->send_aio)))
__CPROVER_ensures(!PS_REJECTED ==> (g_pipe_recv_calls == OLD(g_pipe_recv_calls) + 1 && g_pipe_recv_pipe == P1->pipe && g_pipe_recv_aio == &P1->aio_recv))
#if X_ON_SENDQ
__CPROVER_ensures(!PS_REJECTED ==> AV_C1_SENT_ON_P1)
#if X_ST == 1
__CPROVER_ensures(!PS_REJECTED ==> (FIN_ONCE(FIN_B, 0, AIO_B->a_msg) && AIO_B->a_count == OLD(AIO_B->a_count) + C1->req_len))
#else
__CPROVER_ensures(FIN_NONE(FIN_B))
#endif
#else
__CPROVER_ensures(!PS_REJECTED ==> (AV_READY_WITH_P1 && AV_BUSY_OTHERS && g_pollw && g_pipe_send_calls == OLD(g_pipe_send_calls) && FIN_NONE(FIN_B) && S_SENDQ_PRE && S_RETRYQ_PRE && LIST_IS_EMPTY(&P1->contexts)))
#endif
COVER(PS_REJECTED) COVER(!PS_REJECTED)
#if X_ON_SENDQ
COVER(!PS_REJECTED && C1->req_retry > 0) COVER(!PS_REJECTED && C1->req_retry <= 0)
#endif
;
#include "modules/reqy/contracts_xreq.h"
/* clang-format on */
#endif
