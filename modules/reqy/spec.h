/* Spec macros of module reqy (no code).  The list-shape macros (LIST_IS_*, OBJ_OK, DISTINCT, SOCK, C1, ...)
 * are those of modules/reqx/spec.h (included by modules/reqx/pre.h); the context state machine macros
 * (X_ST, X_RA, ... , CTX_IS_RESET, IDM_TRACKS) are those of modules/reqx/contracts_x.h. */
#ifndef VP_REQY_SPEC_H
#define VP_REQY_SPEC_H
/* Representation invariant tying a context to the id map (C04): a context that records a request id owns the
 * map entry of that id.  (g_idm_key is a free ghost: the statement holds for EVERY key.)  A context whose
 * request_id is stale (recorded, but released in the map) would later remove an entry that may meanwhile
 * belong to another context. */
#define REQ_ID_INV(c) ((c)->request_id == 0 || (g_idm_key == (uint64_t) (c)->request_id ==> (g_rr.idm_has && g_rr.idm_val == (void *) (c))))
/* ---- xreq0_recv_cb: byte facts of the backtrace loop.  i = words moved so far, end = the last moved word
 * carried the request bit.  (g_k, g_b) = any pre-state body byte (ghost equation in the contract):
 *   moved bytes are in the header in order, the rest of the body is unchanged,
 *   none of the words moved before the last has the request bit, the last one has it iff end */
/* -DXQ_TRACK selects which of the byte facts the invariant carries (a split of the POSTCONDITIONS over two units,
 * each unit still runs for all inputs): 1 = where the bytes are, 2 = which words carry the request bit, else both */
#define XQ_LOOP_WHERE(msg, i)                                                                               \
	(((g_k < 4 * (size_t) (i)) ==> HDR(msg)[g_k] == g_b) &&                                             \
	    ((g_k >= 4 * (size_t) (i) && g_k < g_len0) ==> (msg)->m_body.ch_ptr[g_k - 4 * (size_t) (i)] == g_b))
#define XQ_LOOP_CLASS(msg, i, end)                                                                          \
	(((end) ==> ((i) >= 1 && (g_k == 4 * ((size_t) (i) - 1) ==> RR_HB(g_b)))) &&                           \
	    (((g_k & 3) == 0 && (g_k >> 2) + ((end) ? 1 : 0) < (size_t) (i)) ==> !RR_HB(g_b)))
#if XQ_TRACK == 1
#define XQ_LOOP_BYTES(msg, i, end) (XQ_LOOP_WHERE(msg, i) && ((end) ==> (i) >= 1))
#elif XQ_TRACK == 2
#define XQ_LOOP_BYTES(msg, i, end) (XQ_LOOP_CLASS(msg, i, end))
#else
#define XQ_LOOP_BYTES(msg, i, end) (XQ_LOOP_WHERE(msg, i) && XQ_LOOP_CLASS(msg, i, end))
#endif
#endif
