/* Spec macros of module reqy (no code).  The list-shape macros (LIST_IS_*, OBJ_OK, DISTINCT, SOCK, C1, ...)
 * are those of modules/reqx/spec.h (included by modules/reqx/pre.h); the context state machine macros
 * (X_ST, X_RA, ... , CTX_IS_RESET, IDM_TRACKS) are those of modules/reqx/contracts_x.h. */
#ifndef VP_REQY_SPEC_H
#define VP_REQY_SPEC_H
/* Representation invariant tying a context to the id map (C04): a context that records a request id owns the
 * map entry of that id.  (g_idm_key is a free ghost: the statement holds for EVERY key.)  A context whose
 * request_id is stale (recorded, but released in the map) would later remove an entry that may meanwhile
 * belong to another context. */
#define REQ_ID_INV(c) ((c)->request_id == 0 || (g_idm_key == (uint64_t) (c)->request_id ==> (g_rr.idm_has && g_rr.idm_val == (void *) (c))))
#endif
