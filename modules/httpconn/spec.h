/* Spec macros for src/supplemental/http/http_conn.c (buffered HTTP connection
 * I/O).  Oracles: C16 (the read buffer buf[rd_get..rd_put) is a window over
 * the byte stream: every byte is handed on exactly once, in order), C01
 * (partial writes are resumed with exactly the remaining bytes), C02 (every
 * operation completes exactly once), C03 (bounds / ownership).
 *
 * The scatter/gather vector of an aio DESCRIBES A BYTE SEQUENCE (aioiov/spec.h:
 * IOV_TOTAL, IOV_LOC, IOV_DROP).  NNI_AIO_MAX_IOV is 8; units that need real
 * buffer objects behind the entries cap the number of entries IN USE at
 * HC_NIO_CAP (bound, stated in spec.json). */
#ifndef VP_HTTPCONN_SPEC_H
#define VP_HTTPCONN_SPEC_H
#include "modules/aioiov/spec.h"

#ifndef HC_NIO_CAP
#define HC_NIO_CAP 3u
#endif
/* http_init gives the buffer HTTP_BUFSIZE (8160) bytes and nothing changes bufsz afterwards; the contracts
 * hold for ANY size from HC_BUFMIN up (a symbolic size is also what the SAT back end handles best) */
#define HC_BUFMIN ((size_t) 16)
#define VIOV_LENMAX (SIZE_MAX >> 3)    /* buffers fit the address space */

/* representation invariant of the read window */
#define HC_WIN_OK(c) ((c)->rd_get <= (c)->rd_put && (c)->rd_put <= (c)->bufsz && (c)->bufsz >= HC_BUFMIN && (c)->bufsz <= VIOV_LENMAX)
/* shape precondition: conn exists, owns a buffer of bufsz bytes, window ok */
#define HC_CONN_PRE(c) (__CPROVER_is_fresh((c), sizeof(struct nng_http_conn)) && HC_WIN_OK(c) && __CPROVER_is_fresh((c)->buf, (c)->bufsz))

#define HC_Q_OK(q) ((((q).n == 0) == ((q).head == NULL)) && (((q).n >= 2) == ((q).next != NULL)) && ((q).n < 2 || (q).next != (q).head))

/* entry i of a user vector: unused, or an existing NON-EMPTY buffer of that length (empty entries are outside
 * the units of this module, see spec.json not_decided) */
#ifdef HC_BUFFERS_OPAQUE
/* buffer positions are arbitrary pointer values (the unit never looks through them) */
#define HC_ENT_PRE(a, i) ((i) >= (a)->a_nio || ((a)->a_iov[i].iov_len >= 1 && (a)->a_iov[i].iov_len <= VIOV_LENMAX))
#else
#define HC_ENT_PRE(a, i) ((i) >= (a)->a_nio || ((a)->a_iov[i].iov_len >= 1 && (a)->a_iov[i].iov_len <= VIOV_LENMAX && __CPROVER_is_fresh((a)->a_iov[i].iov_buf, (a)->a_iov[i].iov_len)))
#endif
#if HC_NIO_CAP >= 3
#define HC_IOV_PRE(a) ((a)->a_nio <= HC_NIO_CAP && HC_ENT_PRE(a, 0) && HC_ENT_PRE(a, 1) && HC_ENT_PRE(a, 2))
#elif HC_NIO_CAP == 2
#define HC_IOV_PRE(a) ((a)->a_nio <= HC_NIO_CAP && HC_ENT_PRE(a, 0) && HC_ENT_PRE(a, 1))
#else
#define HC_IOV_PRE(a) ((a)->a_nio <= HC_NIO_CAP && HC_ENT_PRE(a, 0))
#endif
#endif
