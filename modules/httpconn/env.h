/* Environment of http_conn.c (ASSUMED models, ghost state in ghost.h).
 *
 *  - stream layer: nng_stream_send/recv/close only record the request; the
 *    completion (result, byte count) is the symbolic pre-state of the next
 *    callback invocation;
 *  - user aio wait queues (rdq/wrq): ghost count + the first two members +
 *    membership of the aio under test; when the head leaves, the second
 *    becomes head and the new second is an unknown non-NULL aio;
 *  - completions, nni_aio_start/abort/close: recorded (nni_aio_start answers
 *    the pre-state ghost g_start_ok; a refused start has completed the aio
 *    itself, as the real one does, which is counted as a completion);
 *  - the three parsers answer pre-state ghosts (result code, consumed count cut
 *    to the bytes offered). */
#ifndef VP_HTTPCONN_ENV_H
#define VP_HTTPCONN_ENV_H

void
nni_panic(const char *fmt, ...)
{
	(void) fmt;
	__CPROVER_assert(0, "nni_panic reached (library aborts the process)");
	__CPROVER_assume(0);
}

/* ---- libc: plain ISO C definitions (CBMC's library models of the string functions trip DFCC's own
 * local-assignability checks, see modules/httphdr/env.h) ---- */
size_t
strlen(const char *s)
{
	size_t i = 0;
	while (s[i] != 0) {
		i++;
	}
	return (i);
}
char *
strcpy(char *d, const char *s)
{
	size_t i = 0;
	while ((d[i] = s[i]) != 0) {
		i++;
	}
	return (d);
}

/* ---- lists ------------------------------------------------------------- */
static void
vp_aioq_pop(vp_aioq *q)
{
	/* the head leaves: the one behind it becomes head; who is behind that one
	 * is unknown (some aio, not NULL) */
	if (q->head == g_the_aio) {
		q->has_x = false;
	}
	q->n--;
	q->head = q->next;
	if (q->n >= 2) {
		nni_aio *x = nondet_ptr();
		__CPROVER_assume(x != NULL && x != q->head);
		q->next = x;
	} else {
		q->next = NULL;
	}
}
static vp_aioq *
vp_q_of(const nni_list *l)
{
	__CPROVER_assert(l == g_rdq_addr || l == g_wrq_addr, "list: an aio queue of this model");
	return (l == g_rdq_addr ? &g_rdq : &g_wrq);
}
void *
nni_list_first(const nni_list *l)
{
	vp_aioq *q = vp_q_of(l);
	return (q->n ? q->head : NULL);
}
void
nni_list_remove(nni_list *l, void *item)
{
	vp_aioq *q = vp_q_of(l);
	__CPROVER_assert(q->n > 0 && item == q->head, "list remove: item is the head of that queue");
	vp_aioq_pop(q);
}
void
nni_list_append(nni_list *l, void *item)
{
	vp_aioq *q = vp_q_of(l);
	__CPROVER_assert(item != NULL, "list append: item is not NULL");
	__CPROVER_assert(!(item == g_the_aio && (g_rdq.has_x || g_wrq.has_x)), "list append: the aio is not already on a queue (shared list node)");
	g_app_list = l;
	g_app_item = item;
	if (q->n == 0) {
		q->head = item;
	} else if (q->n == 1) {
		q->next = item;
	}
	q->n++;
	if (item == g_the_aio) {
		q->has_x = true;
	}
}
int
nni_aio_list_active(nni_aio *aio)
{
	__CPROVER_assert(aio != NULL && aio == g_the_aio, "aio_list_active: asked about the aio under test");
	return (g_rdq.has_x || g_wrq.has_x);
}
void
nni_aio_list_remove(nni_aio *aio)
{
	__CPROVER_assert(aio != NULL, "aio_list_remove: aio is not NULL");
	vp_aioq *q;
	/* an aio waits on at most one queue; the write queue is looked at first */
	if (g_wrq.n > 0 && (aio == g_wrq.head || (aio == g_the_aio && g_wrq.has_x))) {
		q = &g_wrq;
	} else {
		__CPROVER_assert(g_rdq.n > 0 && (aio == g_rdq.head || (aio == g_the_aio && g_rdq.has_x)), "aio_list_remove: aio is on a wait queue");
		q = &g_rdq;
	}
	if (aio == q->head) {
		vp_aioq_pop(q);
	} else {
		/* the aio under test leaves from the middle */
		q->n--;
		q->has_x = false;
		if (aio == q->next || q->n < 2) {
			if (q->n >= 2) {
				nni_aio *x = nondet_ptr();
				__CPROVER_assume(x != NULL && x != q->head && x != aio);
				q->next = x;
			} else {
				q->next = NULL;
			}
		}
	}
}

/* ---- completions ------------------------------------------------------- */
static void
vp_fin(nni_aio *aio, nng_err rv, size_t count)
{
	__CPROVER_assert(aio != NULL, "completion of a NULL aio");
	g_fin_calls++;
	if (rv == NNG_ECLOSED) {
		g_fin_eclosed++;
	}
	g_fin_last       = aio;
	g_fin_last_rv    = (int) rv;
	g_fin_last_count = count;
}
void nni_aio_finish(nni_aio *aio, nng_err rv, size_t count) { vp_fin(aio, rv, count); }
void nni_aio_finish_error(nni_aio *aio, nng_err rv) { vp_fin(aio, rv, 0); }

/* ---- aio run-time ------------------------------------------------------ */
bool
nni_aio_start(nni_aio *aio, nni_aio_cancel_fn fn, void *arg)
{
	g_start_calls++;
	g_start_aio = aio;
	g_start_fn  = fn;
	g_start_arg = arg;
	if (!g_start_ok) {
		/* stopped, aborted or timed out already: the real function has
		 * dispatched the completion itself */
		vp_fin(aio, NNG_ECANCELED, 0);
		return (false);
	}
	return (true);
}
void nni_aio_abort(nni_aio *aio, nng_err rv) { g_abort_calls++; g_abort_aio = aio; g_abort_rv = (int) rv; }
void nni_aio_close(nni_aio *aio) { g_aclose_calls++; g_aclose_prev = g_aclose_last; g_aclose_last = aio; }

/* ---- stream layer ------------------------------------------------------ */
void nng_stream_send(nng_stream *s, nng_aio *aio) { g_send_calls++; g_io_conn = s; g_io_aio = aio; }
void nng_stream_recv(nng_stream *s, nng_aio *aio) { g_recv_calls++; g_io_conn = s; g_io_aio = aio; }
void nng_stream_close(nng_stream *s) { g_sclose_calls++; g_io_conn = s; }

/* ---- parsers ----------------------------------------------------------- */
static nng_err
vp_parse(int kind, void *arg, void *buf, size_t n, size_t *lenp)
{
	__CPROVER_assert(n == 0 || (__CPROVER_r_ok(buf, n) && __CPROVER_w_ok(buf, n)), "parser: the bytes offered exist");
	g_parse_calls++;
	g_parse_kind = kind;
	g_parse_arg  = arg;
	g_parse_buf  = buf;
	g_parse_n    = n;
	*lenp        = (g_parse_len_in < n) ? g_parse_len_in : n;
	return ((nng_err) g_parse_rv_in);
}
nng_err
nni_http_req_parse(nng_http *conn, void *buf, size_t n, size_t *lenp)
{
	conn->req.data.parsed = g_parse_parsed_in;
	return (vp_parse(1, conn, buf, n, lenp));
}
nng_err
nni_http_res_parse(nng_http *conn, void *buf, size_t n, size_t *lenp)
{
	conn->res.data.parsed = g_parse_parsed_in;
	return (vp_parse(2, conn, buf, n, lenp));
}
nng_err
nni_http_chunks_parse(nni_http_chunks *cl, void *buf, size_t n, size_t *lenp)
{
	nng_err rv = vp_parse(3, cl, buf, n, lenp);
	if (rv == NNG_EAGAIN) {
		/* contract of nni_http_chunks_parse (module httpchunk, units
		 * chunks_parse*): "need more" means every byte offered was taken */
		*lenp = n;
	}
	return (rv);
}
void
nng_http_set_status(nng_http *conn, nng_http_status status, const char *reason)
{
	(void) conn;
	(void) reason;
	g_status_calls++;
	g_status_last = (int) status;
}
#endif
