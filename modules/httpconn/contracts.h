/* Contracts for src/supplemental/http/http_conn.c (buffered HTTP connection
 * I/O).  Postconditions are taken from C16 (the read buffer is a window over
 * the byte stream: every byte handed on exactly once, in order, whatever the
 * split), C01 (partial writes resumed with exactly the remaining bytes), C02
 * (each operation completes exactly once) and C03 (bounds, ownership); frames
 * ("nothing else changes") are the assigns clauses. */
#ifndef VP_HTTPCONN_CONTRACTS_H
#define VP_HTTPCONN_CONTRACTS_H
/* clang-format off */
#define RV __CPROVER_return_value
#define OLD(e) __CPROVER_old(e)
#define HC_FIN_GHOSTS g_fin_calls, g_fin_eclosed, g_fin_last, g_fin_last_rv, g_fin_last_count
#define HC_IO_GHOSTS g_send_calls, g_recv_calls, g_io_conn, g_io_aio
#define HC_PARSE_GHOSTS g_parse_calls, g_parse_kind, g_parse_arg, g_parse_buf, g_parse_n
#define HC_STATUS_GHOSTS g_status_calls, g_status_last
#define HC_CLOSE_GHOSTS g_aclose_calls, g_aclose_last, g_aclose_prev, g_sclose_calls
#define HC_LISTS_PRE(c) (g_rdq_addr == &(c)->rdq && g_wrq_addr == &(c)->wrq)
#define HC_IOV_OF(a) (a).a_nio, __CPROVER_object_upto(&(a).a_iov[0], sizeof((a).a_iov))
#define HC_FIN_IS(aio, rv, cnt) (g_fin_calls == OLD(g_fin_calls) + 1 && g_fin_last == (aio) && g_fin_last_rv == (int) (rv) && g_fin_last_count == (cnt))
#define HC_NO_FIN (g_fin_calls == OLD(g_fin_calls))
#define HC_NO_IO (g_send_calls == OLD(g_send_calls) && g_recv_calls == OLD(g_recv_calls))
#define HC_RECV_ARMED(c) (g_recv_calls == OLD(g_recv_calls) + 1 && g_send_calls == OLD(g_send_calls) && g_io_aio == &(c)->rd_aio && g_io_conn == (c)->sock)
#define HC_SEND_ARMED(c) (g_send_calls == OLD(g_send_calls) + 1 && g_recv_calls == OLD(g_recv_calls) && g_io_aio == &(c)->wr_aio && g_io_conn == (c)->sock)
/* the buffered wire read goes into exactly the free part buf[rd_put..bufsz) */
#define HC_RD_INTO_FREE(c) ((c)->buffered && (c)->rd_put < (c)->bufsz && (c)->rd_aio.a_nio == 1 && (uint8_t *) (c)->rd_aio.a_iov[0].iov_buf == (c)->buf + (c)->rd_put && (c)->rd_aio.a_iov[0].iov_len == (c)->bufsz - (c)->rd_put)

/* ---- pull-up: the unread bytes, all of them, in order, now at the front -- */
static void http_buf_pull_up(nni_http_conn *conn)
__CPROVER_requires(HC_CONN_PRE(conn))
/* ghost equation (not a restriction): g_b is unread byte number g_k */
__CPROVER_requires((g_k < conn->rd_put - conn->rd_get) ==> (g_b == conn->buf[conn->rd_get + g_k]))
__CPROVER_assigns(conn->rd_get != 0: conn->rd_get, conn->rd_put, __CPROVER_object_whole(conn->buf))
__CPROVER_ensures(conn->rd_get == 0 && conn->rd_put == OLD(conn->rd_put) - OLD(conn->rd_get) && HC_WIN_OK(conn))
__CPROVER_ensures((g_k < conn->rd_put) ==> (conn->buf[g_k] == g_b))
;

/* ---- close: every pending operation is refused exactly once ------------- */
static void http_close(nni_http_conn *conn)
__CPROVER_requires(__CPROVER_is_fresh(conn, sizeof(*conn)) && HC_LISTS_PRE(conn) && HC_Q_OK(g_rdq) && HC_Q_OK(g_wrq))
__CPROVER_assigns(!conn->closed: conn->closed, conn->rd_uaio, conn->wr_uaio, g_rdq, g_wrq, HC_FIN_GHOSTS, HC_CLOSE_GHOSTS, g_io_conn)
__CPROVER_ensures(conn->closed)
__CPROVER_ensures(!OLD(conn->closed) ==> (conn->rd_uaio == NULL && conn->wr_uaio == NULL && g_rdq.n == 0 && g_wrq.n == 0))
/* one completion per pending operation (current read, current write, queued ones), all NNG_ECLOSED */
#define HC_CLOSE_NFIN(base) (((((base) + (OLD(conn->rd_uaio) != NULL ? 1u : 0u)) + (OLD(conn->wr_uaio) != NULL ? 1u : 0u)) + OLD(g_wrq.n)) + OLD(g_rdq.n))
__CPROVER_ensures(!OLD(conn->closed) ==> (g_fin_calls == HC_CLOSE_NFIN(OLD(g_fin_calls)) && g_fin_eclosed == HC_CLOSE_NFIN(OLD(g_fin_eclosed))))
/* both wire aios closed, the stream closed once */
__CPROVER_ensures(!OLD(conn->closed) ==> (g_aclose_calls == OLD(g_aclose_calls) + 2 && ((g_aclose_last == &conn->rd_aio && g_aclose_prev == &conn->wr_aio) || (g_aclose_last == &conn->wr_aio && g_aclose_prev == &conn->rd_aio))))
__CPROVER_ensures(!OLD(conn->closed) ==> (conn->sock != NULL ? (g_sclose_calls == OLD(g_sclose_calls) + 1 && g_io_conn == conn->sock) : g_sclose_calls == OLD(g_sclose_calls)))
;

/* ---- http_rd_buf: serve the head read from the buffer ------------------- */
#define HC_AV    (OLD(conn->rd_put) - OLD(conn->rd_get)) /* unread bytes before */
#define HC_AVPRE (conn->rd_put - conn->rd_get)
/* the user's vector before the call: at most HC_NIO_CAP (<= 3) entries in use */
#define U_NIO   OLD(aio->a_nio)
#define U_L(i)  ((i) < U_NIO ? OLD(aio->a_iov[i].iov_len) : (size_t) 0)
#define U_B(i)  ((uint8_t *) OLD(aio->a_iov[i].iov_buf))
#define U_P1    (U_L(0))
#define U_P2    (U_P1 + U_L(1))
#define U_TOT   (U_P2 + U_L(2))
#define U_PJ(j) ((j) == 0 ? (size_t) 0 : (j) == 1 ? U_P1 : (j) == 2 ? U_P2 : U_TOT)
#if HC_NIO_CAP >= 3
#define U_LOC(k) ((k) < U_P1 ? U_B(0) + (k) : (k) < U_P2 ? U_B(1) + ((k) - U_P1) : U_B(2) + ((k) - U_P2))
#elif HC_NIO_CAP == 2
#define U_LOC(k) ((k) < U_P1 ? U_B(0) + (k) : U_B(1) + ((k) - U_P1))
#else
#define U_LOC(k) (U_B(0) + (k))
#endif
#define U_DROP(n) (((n) == 0 || (n) < U_P1) ? 0u : ((n) == U_P1 || (n) < U_P2) ? VP_MIN(1u, U_NIO) : ((n) == U_P2 || (n) < U_TOT) ? VP_MIN(2u, U_NIO) : U_NIO)
#define HC_C    VP_MIN(HC_AV, U_TOT) /* bytes that must be handed over */
#define HC_LPRE(a, i) ((i) < (a)->a_nio ? (a)->a_iov[i].iov_len : (size_t) 0)
/* parsers */
#define P_CONSPRE VP_MIN(g_parse_len_in, HC_AVPRE)
#define P_CONS    VP_MIN(g_parse_len_in, HC_AV)
#define C_CONSPRE (g_parse_rv_in == (int) NNG_EAGAIN ? HC_AVPRE : P_CONSPRE)
#define C_CONS    (g_parse_rv_in == (int) NNG_EAGAIN ? HC_AV : P_CONS)
#define D_CONSPRE VP_MIN(conn->rd_discard, HC_AVPRE)
#define D_CONS    VP_MIN(OLD(conn->rd_discard), HC_AV)
#if HC_CASE == 4
#define X_CONSPRE C_CONSPRE
#define X_CONS    C_CONS
#elif HC_CASE == 5
#define X_CONSPRE D_CONSPRE
#define X_CONS    D_CONS
#else
#define X_CONSPRE P_CONSPRE
#define X_CONS    P_CONS
#endif
#define X_LEFT (HC_AV - X_CONS)
#define HC_PARSER_CALLED(kind, arg) (g_parse_calls == OLD(g_parse_calls) + 1 && g_parse_kind == (kind) && g_parse_arg == (void *) (arg) && (uint8_t *) g_parse_buf == conn->buf + OLD(conn->rd_get) && g_parse_n == HC_AV)
/* after a parse that needs no more input: the consumed bytes are gone, the others are still the window */
#define HC_CONSUMED_ONLY (X_LEFT == 0 ? (conn->rd_get == 0 && conn->rd_put == 0) : (conn->rd_get == OLD(conn->rd_get) + X_CONS && conn->rd_put == OLD(conn->rd_put)))

static nng_err http_rd_buf(nni_http_conn *conn, nni_aio *aio)
__CPROVER_requires(HC_CONN_PRE(conn) && __CPROVER_is_fresh(aio, sizeof(nni_aio)))
#if HC_CASE == 1
__CPROVER_requires(conn->rd_flavor == HTTP_RD_RAW || conn->rd_flavor == HTTP_RD_FULL)
__CPROVER_requires(HC_IOV_PRE(aio))
/* ghost equation: g_b is unread byte number g_k */
__CPROVER_requires((g_k < HC_AVPRE) ==> (g_b == conn->buf[conn->rd_get + g_k]))
#elif HC_CASE == 2
__CPROVER_requires(conn->rd_flavor == HTTP_RD_REQ)
#elif HC_CASE == 3
__CPROVER_requires(conn->rd_flavor == HTTP_RD_RES)
#elif HC_CASE == 4
__CPROVER_requires(conn->rd_flavor == HTTP_RD_CHUNK)
#elif HC_CASE == 5
__CPROVER_requires(conn->rd_flavor == HTTP_RD_DISCARD)
#else
__CPROVER_requires(conn->rd_flavor <= HTTP_RD_DISCARD)
__CPROVER_requires(conn->rd_flavor > HTTP_RD_FULL || HC_IOV_PRE(aio))
#endif
#if HC_CASE >= 2
/* ghost equation: g_b is byte number g_k of what the parser leaves unread */
__CPROVER_requires((X_CONSPRE + g_k < HC_AVPRE) ==> (g_b == conn->buf[conn->rd_get + X_CONSPRE + g_k]))
#endif
__CPROVER_assigns(conn->rd_get, conn->rd_put, conn->rd_discard, conn->buffered, conn->client, conn->req.data.parsed, conn->res.data.parsed)
__CPROVER_assigns(__CPROVER_object_whole(conn->buf))
__CPROVER_assigns(aio->a_count, aio->a_nio, __CPROVER_object_upto(&aio->a_iov[0], sizeof(aio->a_iov)), HC_IOV_OF(conn->rd_aio))
__CPROVER_assigns(HC_IO_GHOSTS, HC_PARSE_GHOSTS, HC_STATUS_GHOSTS)
#ifndef HC_BUFFERS_OPAQUE
__CPROVER_assigns(conn->rd_flavor <= HTTP_RD_FULL && 0 < aio->a_nio && aio->a_iov[0].iov_len > 0: __CPROVER_object_whole(aio->a_iov[0].iov_buf))
#if HC_NIO_CAP >= 2
__CPROVER_assigns(conn->rd_flavor <= HTTP_RD_FULL && 1 < aio->a_nio && aio->a_iov[1].iov_len > 0: __CPROVER_object_whole(aio->a_iov[1].iov_buf))
#endif
#if HC_NIO_CAP >= 3
__CPROVER_assigns(conn->rd_flavor <= HTTP_RD_FULL && 2 < aio->a_nio && aio->a_iov[2].iov_len > 0: __CPROVER_object_whole(aio->a_iov[2].iov_buf))
#endif
#endif
/* ---- COMMON clauses (every flavour; these are what http_rd_start relies on) */
__CPROVER_ensures(HC_WIN_OK(conn))
/* "need more" <=> exactly one wire read has been submitted on the connection's read aio */
__CPROVER_ensures(RV == NNG_EAGAIN ? HC_RECV_ARMED(conn) : HC_NO_IO)
/* a buffered wire read never goes anywhere but into the free part of the buffer */
__CPROVER_ensures((RV == NNG_EAGAIN && conn->buffered) ==> HC_RD_INTO_FREE(conn))
#if HC_CASE == 1
/* ---- RAW / FULL: the next min(available, wanted) buffered bytes, in order, each exactly once */
__CPROVER_ensures(conn->rd_get == OLD(conn->rd_get) + HC_C && conn->rd_put == OLD(conn->rd_put))
__CPROVER_ensures(aio->a_count == OLD(aio->a_count) + HC_C)
#ifndef HC_NO_CONTENT
__CPROVER_ensures((g_k < HC_C) ==> (*U_LOC(g_k) == g_b))
#endif
/* the vector is advanced by the same count: entries used up are dropped in order, the first survivor loses its consumed front, later ones unchanged */
__CPROVER_ensures(aio->a_nio == U_NIO - U_DROP(HC_C))
__CPROVER_ensures((g_n == U_DROP(HC_C) && g_n < 3 && aio->a_nio >= 1) ==> (aio->a_iov[0].iov_len == OLD(aio->a_iov[g_n & 3u].iov_len) - (HC_C - U_PJ(g_n)) && (uint8_t *) aio->a_iov[0].iov_buf == (uint8_t *) OLD(aio->a_iov[g_n & 3u].iov_buf) + (HC_C - U_PJ(g_n))))
__CPROVER_ensures((g_j >= 1 && g_j < aio->a_nio && g_n == g_j + U_DROP(HC_C) && g_n < 3) ==> (aio->a_iov[g_j & 3u].iov_len == OLD(aio->a_iov[g_n & 3u].iov_len) && aio->a_iov[g_j & 3u].iov_buf == OLD(aio->a_iov[g_n & 3u].iov_buf)))
/* finished: FULL when nothing is left to fill, RAW as soon as it has anything */
#define HC_COPY_DONE (aio->a_nio == 0 || (conn->rd_flavor == HTTP_RD_RAW && aio->a_count != 0))
__CPROVER_ensures(RV == (HC_COPY_DONE ? NNG_OK : NNG_EAGAIN))
__CPROVER_ensures(RV == NNG_OK ==> conn->buffered == OLD(conn->buffered))
/* buffer exhausted: the REMAINDER is requested from the wire, into the remaining part of the caller's buffers */
__CPROVER_ensures(RV == NNG_EAGAIN ==> (!conn->buffered && conn->rd_get == conn->rd_put && conn->rd_aio.a_nio == aio->a_nio))
__CPROVER_ensures((RV == NNG_EAGAIN && g_j < aio->a_nio) ==> (conn->rd_aio.a_iov[g_j & 7u].iov_buf == aio->a_iov[g_j & 7u].iov_buf && conn->rd_aio.a_iov[g_j & 7u].iov_len == aio->a_iov[g_j & 7u].iov_len))
__CPROVER_ensures(g_parse_calls == OLD(g_parse_calls) && conn->rd_discard == OLD(conn->rd_discard))
#elif HC_CASE == 2 || HC_CASE == 3 || HC_CASE == 4
/* ---- REQ / RES / CHUNK: the parser sees exactly the unread window; what it consumed, and only that, leaves the window */
#if HC_CASE == 2
__CPROVER_ensures(HC_PARSER_CALLED(1, conn) && !conn->client)
__CPROVER_ensures(RV == (nng_err) g_parse_rv_in)
#elif HC_CASE == 3
__CPROVER_ensures(HC_PARSER_CALLED(2, conn) && conn->client)
/* a response head that does not fit the buffer is refused */
__CPROVER_ensures(RV == ((g_parse_rv_in == (int) NNG_EAGAIN && X_LEFT == conn->bufsz) ? NNG_EMSGSIZE : (nng_err) g_parse_rv_in))
#else
__CPROVER_ensures(HC_PARSER_CALLED(3, OLD(aio->a_prov_data)))
__CPROVER_ensures(RV == (nng_err) g_parse_rv_in)
#endif
__CPROVER_ensures(g_parse_rv_in != (int) NNG_EAGAIN ==> HC_CONSUMED_ONLY)
__CPROVER_ensures((g_parse_rv_in != (int) NNG_EAGAIN && g_k < X_LEFT) ==> (conn->buf[conn->rd_get + g_k] == g_b))
/* "need more": the unread rest is pulled to the front, the wire read goes behind it */
__CPROVER_ensures((g_parse_rv_in == (int) NNG_EAGAIN && X_LEFT < conn->bufsz) ==> (conn->rd_get == 0 && conn->rd_put == X_LEFT && conn->buffered && g_status_calls == OLD(g_status_calls)))
__CPROVER_ensures((g_parse_rv_in == (int) NNG_EAGAIN && X_LEFT < conn->bufsz && g_k < X_LEFT) ==> (conn->buf[g_k] == g_b))
#if HC_CASE == 2
/* a request line / header block that fills the whole buffer without a line end: answered with 414 / 431; the
 * buffer is restarted with a marker header so that the rest of the over-long line is swallowed */
__CPROVER_ensures((g_parse_rv_in == (int) NNG_EAGAIN && X_LEFT == conn->bufsz) ==> (conn->rd_get == 0 && conn->rd_put == 14 && conn->buf[0] == 'N' && conn->buf[13] == 'X' && g_status_calls == OLD(g_status_calls) + 1 && g_status_last == (int) (g_parse_parsed_in ? NNG_HTTP_STATUS_HEADERS_TOO_LARGE : NNG_HTTP_STATUS_URI_TOO_LONG)))
#endif
__CPROVER_ensures(conn->rd_discard == OLD(conn->rd_discard) && aio->a_count == OLD(aio->a_count) && aio->a_nio == OLD(aio->a_nio))
#elif HC_CASE == 5
/* ---- DISCARD: min(available, to discard) bytes leave the window, the rest is pulled to the front */
__CPROVER_ensures(conn->rd_discard == OLD(conn->rd_discard) - X_CONS && conn->rd_get == 0 && conn->rd_put == X_LEFT)
__CPROVER_ensures((g_k < X_LEFT) ==> (conn->buf[g_k] == g_b))
__CPROVER_ensures(RV == (conn->rd_discard > 0 ? NNG_EAGAIN : NNG_OK))
__CPROVER_ensures(g_parse_calls == OLD(g_parse_calls) && aio->a_count == OLD(aio->a_count) && aio->a_nio == OLD(aio->a_nio))
#endif
;

/* ======================================================================= cancel (C02) */
#define CC ((nni_http_conn *) arg)
/* the aio under test is on at most one queue, and the queue model agrees with it */
#define HC_X_OK(q) ((!(q).has_x || (q).n >= 1) && (((q).n >= 1 && (q).head == g_the_aio) ==> (q).has_x) && (((q).n >= 2 && (q).next == g_the_aio) ==> (q).has_x) && (((q).n == 1 && (q).has_x) ==> (q).head == g_the_aio))
#define HC_CANCEL_PRE (__CPROVER_is_fresh(arg, sizeof(nni_http_conn)) && HC_LISTS_PRE(CC) && VP_NO_LOCK_HELD && aio != NULL && g_the_aio == aio && HC_Q_OK(g_rdq) && HC_Q_OK(g_wrq) && HC_X_OK(g_rdq) && HC_X_OK(g_wrq))
#define HC_ABORTED(wire, rv) (g_abort_calls == OLD(g_abort_calls) + 1 && g_abort_aio == (wire) && g_abort_rv == (int) (rv))
#define HC_ABORT_GHOSTS g_abort_calls, g_abort_aio, g_abort_rv

static void http_rd_cancel(nni_aio *aio, void *arg, nng_err rv)
__CPROVER_requires(HC_CANCEL_PRE)
/* a read operation: current, or waiting in the read queue, or already completed -- never two of these */
__CPROVER_requires(!g_wrq.has_x && CC->wr_uaio != aio && !(CC->rd_uaio == aio && g_rdq.has_x))
__CPROVER_assigns(CC->rd_uaio, g_rdq, HC_FIN_GHOSTS, HC_ABORT_GHOSTS, VP_SYNC_GHOSTS)
__CPROVER_ensures(VP_NO_LOCK_HELD && g_wrq.n == OLD(g_wrq.n))
/* current operation: detached (so the read callback cannot complete it again), completed once with rv, the wire read aborted with rv */
__CPROVER_ensures(OLD(CC->rd_uaio) == aio ==> (CC->rd_uaio == NULL && HC_FIN_IS(aio, rv, 0) && HC_ABORTED(&CC->rd_aio, rv) && g_rdq.n == OLD(g_rdq.n)))
/* queued operation: taken off the queue, completed once with rv; the operation in flight is not disturbed */
__CPROVER_ensures((OLD(CC->rd_uaio) != aio && OLD(g_rdq.has_x)) ==> (HC_FIN_IS(aio, rv, 0) && g_rdq.n == OLD(g_rdq.n) - 1 && !g_rdq.has_x && CC->rd_uaio == OLD(CC->rd_uaio) && g_abort_calls == OLD(g_abort_calls)))
/* already completed: nothing happens (no second completion, no code reported) */
__CPROVER_ensures((OLD(CC->rd_uaio) != aio && !OLD(g_rdq.has_x)) ==> (HC_NO_FIN && g_rdq.n == OLD(g_rdq.n) && CC->rd_uaio == OLD(CC->rd_uaio) && g_abort_calls == OLD(g_abort_calls)))
;

static void http_wr_cancel(nni_aio *aio, void *arg, nng_err rv)
__CPROVER_requires(HC_CANCEL_PRE)
__CPROVER_requires(!g_rdq.has_x && CC->rd_uaio != aio && !(CC->wr_uaio == aio && g_wrq.has_x))
__CPROVER_assigns(CC->wr_uaio, g_wrq, HC_FIN_GHOSTS, HC_ABORT_GHOSTS, VP_SYNC_GHOSTS)
__CPROVER_ensures(VP_NO_LOCK_HELD && g_rdq.n == OLD(g_rdq.n))
__CPROVER_ensures(OLD(CC->wr_uaio) == aio ==> (CC->wr_uaio == NULL && HC_FIN_IS(aio, rv, 0) && HC_ABORTED(&CC->wr_aio, rv) && g_wrq.n == OLD(g_wrq.n)))
__CPROVER_ensures((OLD(CC->wr_uaio) != aio && OLD(g_wrq.has_x)) ==> (HC_FIN_IS(aio, rv, 0) && g_wrq.n == OLD(g_wrq.n) - 1 && !g_wrq.has_x && CC->wr_uaio == OLD(CC->wr_uaio) && g_abort_calls == OLD(g_abort_calls)))
__CPROVER_ensures((OLD(CC->wr_uaio) != aio && !OLD(g_wrq.has_x)) ==> (HC_NO_FIN && g_wrq.n == OLD(g_wrq.n) && CC->wr_uaio == OLD(CC->wr_uaio) && g_abort_calls == OLD(g_abort_calls)))
;

/* ======================================================================= write side (C01) */
/* who is current after a start: the one that was, else the head of the queue */
#define W_CUR (OLD(conn->wr_uaio) != NULL ? OLD(conn->wr_uaio) : OLD(g_wrq.head))
static void http_wr_start(nni_http_conn *conn)
__CPROVER_requires(__CPROVER_is_fresh(conn, sizeof(*conn)) && HC_LISTS_PRE(conn))
__CPROVER_requires(conn->wr_uaio == NULL || (__CPROVER_is_fresh(conn->wr_uaio, sizeof(nni_aio)) && conn->wr_uaio->a_nio <= VIOV_MAX))
__CPROVER_requires(g_wrq.n == 0 || (__CPROVER_is_fresh(g_wrq.head, sizeof(nni_aio)) && g_wrq.head->a_nio <= VIOV_MAX))
/* (queue shape stated AFTER the is_fresh clauses: is_fresh re-points the head) */
__CPROVER_requires(HC_Q_OK(g_wrq))
__CPROVER_assigns(conn->wr_uaio, g_wrq, HC_IOV_OF(conn->wr_aio), HC_IO_GHOSTS)
/* nothing to write: nothing happens */
__CPROVER_ensures((OLD(conn->wr_uaio) == NULL && OLD(g_wrq.n) == 0) ==> (conn->wr_uaio == NULL && HC_NO_IO && g_wrq.n == 0))
/* otherwise the current (else the FIRST queued) operation is in flight with its whole vector */
__CPROVER_ensures((OLD(conn->wr_uaio) != NULL || OLD(g_wrq.n) > 0) ==> (conn->wr_uaio == W_CUR && HC_SEND_ARMED(conn) && g_wrq.n == OLD(g_wrq.n) - (OLD(conn->wr_uaio) == NULL ? 1u : 0u)))
__CPROVER_ensures((OLD(conn->wr_uaio) != NULL || OLD(g_wrq.n) > 0) ==> (conn->wr_aio.a_nio == conn->wr_uaio->a_nio))
__CPROVER_ensures(((OLD(conn->wr_uaio) != NULL || OLD(g_wrq.n) > 0) && g_j < conn->wr_aio.a_nio) ==> (conn->wr_aio.a_iov[g_j & 7u].iov_buf == conn->wr_uaio->a_iov[g_j & 7u].iov_buf && conn->wr_aio.a_iov[g_j & 7u].iov_len == conn->wr_uaio->a_iov[g_j & 7u].iov_len))
;

/* the vector in flight (<= 3 entries in this unit): prefix sums / total / dropped-entry count */
#define W_RV   OLD(CC->wr_aio.a_result)
#define W_N    OLD(CC->wr_aio.a_count)
#define W_NIO  OLD(CC->wr_aio.a_nio)
#define W_L(i) ((i) < W_NIO ? OLD(CC->wr_aio.a_iov[i].iov_len) : (size_t) 0)
#define W_P1   (W_L(0))
#define W_P2   (W_P1 + W_L(1))
#define W_TOT  (W_P2 + W_L(2))
#define W_PJ(j) ((j) == 0 ? (size_t) 0 : (j) == 1 ? W_P1 : (j) == 2 ? W_P2 : W_TOT)
#define W_DROP ((W_N == 0 || W_N < W_P1) ? 0u : (W_N == W_P1 || W_N < W_P2) ? VP_MIN(1u, W_NIO) : (W_N == W_P2 || W_N < W_TOT) ? VP_MIN(2u, W_NIO) : W_NIO)
#define W_CL(i) ((i) < CC->wr_aio.a_nio ? CC->wr_aio.a_iov[i].iov_len : (size_t) 0)
#define W_CTOT ((W_CL(0) + W_CL(1)) + W_CL(2))
#define W_UAIO OLD(CC->wr_uaio)
#define W_OK   (W_RV == 0 && W_UAIO != NULL)
#define W_FULL (CC->wr_flavor != HTTP_WR_RAW)
/* the user operation is complete: RAW after the first write, the others when everything is written */
#define W_DONE (W_OK && (!W_FULL || W_N == W_TOT))
#define W_PART (W_OK && W_FULL && W_N < W_TOT)
#define W_NEXT_STARTED (OLD(g_wrq.n) > 0 ? (CC->wr_uaio == OLD(g_wrq.head) && g_wrq.n == OLD(g_wrq.n) - 1 && HC_SEND_ARMED(CC)) : (CC->wr_uaio == NULL && HC_NO_IO))
static void http_wr_cb(void *arg)
__CPROVER_requires(__CPROVER_is_fresh(arg, sizeof(nni_http_conn)) && HC_LISTS_PRE(CC) && VP_NO_LOCK_HELD)
__CPROVER_requires(CC->wr_uaio == NULL || __CPROVER_is_fresh(CC->wr_uaio, sizeof(nni_aio)))
__CPROVER_requires(g_wrq.n == 0 || (__CPROVER_is_fresh(g_wrq.head, sizeof(nni_aio)) && g_wrq.head->a_nio <= VIOV_MAX))
__CPROVER_requires(HC_Q_OK(g_rdq) && HC_Q_OK(g_wrq))
/* the vector in flight: up to three entries (buffer positions are opaque here: the callback never looks through them) */
__CPROVER_requires(CC->wr_aio.a_nio <= 3 && W_CL(0) <= VIOV_LENMAX && W_CL(1) <= VIOV_LENMAX && W_CL(2) <= VIOV_LENMAX)
/* ASSUMED about the stream layer: a successful completion reports at most what was asked for */
__CPROVER_requires(CC->wr_aio.a_result != 0 || CC->wr_aio.a_count <= W_CTOT)
__CPROVER_assigns(CC->wr_uaio, CC->closed, CC->rd_uaio, g_rdq, g_wrq, HC_IOV_OF(CC->wr_aio), HC_FIN_GHOSTS, HC_IO_GHOSTS, HC_CLOSE_GHOSTS, VP_SYNC_GHOSTS)
__CPROVER_assigns(CC->wr_uaio != NULL: CC->wr_uaio->a_count)
__CPROVER_ensures(VP_NO_LOCK_HELD)
/* failed write: the operation in flight gets that error, the connection is closed (everything else pending is refused, see http_close) */
__CPROVER_ensures(W_RV != 0 ==> (CC->closed && CC->wr_uaio == NULL && HC_NO_IO))
__CPROVER_ensures((W_RV != 0 && OLD(CC->closed)) ==> (W_UAIO != NULL ? HC_FIN_IS(W_UAIO, W_RV, 0) : HC_NO_FIN))
__CPROVER_ensures((W_RV != 0 && !OLD(CC->closed)) ==> (g_fin_calls == (((OLD(g_fin_calls) + (W_UAIO != NULL ? 1u : 0u)) + (OLD(CC->rd_uaio) != NULL ? 1u : 0u)) + OLD(g_wrq.n)) + OLD(g_rdq.n)))
/* the operation was cancelled meanwhile: the completion is dropped, nothing is completed or started */
__CPROVER_ensures((W_RV == 0 && W_UAIO == NULL) ==> (HC_NO_FIN && HC_NO_IO && CC->wr_uaio == NULL && g_wrq.n == OLD(g_wrq.n)))
/* n more bytes are accounted to the operation */
__CPROVER_ensures(W_OK ==> W_UAIO->a_count == OLD(CC->wr_uaio->a_count) + W_N)
/* partial write of a FULL / REQ / RES operation: exactly the remaining bytes are resubmitted (entries used up dropped in order,
 * the first survivor loses its written front, later ones unchanged); nothing completes */
__CPROVER_ensures(W_PART ==> (HC_SEND_ARMED(CC) && HC_NO_FIN && CC->wr_uaio == W_UAIO && g_wrq.n == OLD(g_wrq.n)))
__CPROVER_ensures(W_PART ==> (CC->wr_aio.a_nio == W_NIO - W_DROP && CC->wr_aio.a_nio >= 1))
__CPROVER_ensures((W_PART && g_n == W_DROP && g_n < 3) ==> (CC->wr_aio.a_iov[0].iov_len == OLD(CC->wr_aio.a_iov[g_n & 3u].iov_len) - (W_N - W_PJ(g_n)) && (W_N == W_PJ(g_n) ? CC->wr_aio.a_iov[0].iov_buf == OLD(CC->wr_aio.a_iov[g_n & 3u].iov_buf) : (char *) CC->wr_aio.a_iov[0].iov_buf == (char *) OLD(CC->wr_aio.a_iov[g_n & 3u].iov_buf) + (W_N - W_PJ(g_n)))))
__CPROVER_ensures((W_PART && g_j >= 1 && g_j < CC->wr_aio.a_nio && g_n == g_j + W_DROP && g_n < 3) ==> (CC->wr_aio.a_iov[g_j & 3u].iov_len == OLD(CC->wr_aio.a_iov[g_n & 3u].iov_len) && CC->wr_aio.a_iov[g_j & 3u].iov_buf == OLD(CC->wr_aio.a_iov[g_n & 3u].iov_buf)))
/* complete: completed exactly once, result 0, count = everything accounted to it; the next queued write (if any) is started */
__CPROVER_ensures(W_DONE ==> (HC_FIN_IS(W_UAIO, 0, W_UAIO->a_count) && W_NEXT_STARTED))
;

/* ======================================================================= submit (C02) */
#define S_REFUSED(aio, code) (HC_FIN_IS(aio, code, 0) && g_app_item == OLD(g_app_item) && HC_NO_IO)
static void http_wr_submit(nni_http_conn *conn, nni_aio *aio, enum write_flavor flavor)
__CPROVER_requires(__CPROVER_is_fresh(conn, sizeof(*conn)) && __CPROVER_is_fresh(aio, sizeof(nni_aio)) && aio->a_nio <= VIOV_MAX && HC_LISTS_PRE(conn))
__CPROVER_requires(conn->wr_uaio == NULL || (__CPROVER_is_fresh(conn->wr_uaio, sizeof(nni_aio)) && conn->wr_uaio->a_nio <= VIOV_MAX))
__CPROVER_requires(g_wrq.n == 0 || (__CPROVER_is_fresh(g_wrq.head, sizeof(nni_aio)) && g_wrq.head->a_nio <= VIOV_MAX))
__CPROVER_requires(HC_Q_OK(g_wrq))
/* a new operation: not current, not queued */
__CPROVER_requires(g_the_aio == aio && !g_wrq.has_x && !g_rdq.has_x && conn->wr_uaio != aio && (g_wrq.n == 0 || g_wrq.head != aio) && (g_wrq.n < 2 || g_wrq.next != aio))
__CPROVER_assigns(conn->wr_flavor, conn->wr_uaio, g_wrq, g_app_list, g_app_item, HC_IOV_OF(conn->wr_aio), HC_IO_GHOSTS, HC_FIN_GHOSTS, g_start_calls, g_start_aio, g_start_fn, g_start_arg)
__CPROVER_assigns(aio->a_result, aio->a_count, aio->a_abort, aio->a_expire_ok, aio->a_sleep, aio->a_skipped_callback, __CPROVER_object_upto(&aio->a_outputs[0], sizeof(aio->a_outputs)))
__CPROVER_ensures(aio->a_count == 0 && aio->a_result == NNG_OK)
/* closed connection: refused once with NNG_ECLOSED, never queued, never started */
__CPROVER_ensures(conn->closed ==> (S_REFUSED(aio, NNG_ECLOSED) && g_start_calls == OLD(g_start_calls) && g_wrq.n == OLD(g_wrq.n) && conn->wr_uaio == OLD(conn->wr_uaio)))
/* the aio layer refused the start (it has completed the aio itself): not queued, not completed a second time */
__CPROVER_ensures((!conn->closed && !g_start_ok) ==> (g_start_calls == OLD(g_start_calls) + 1 && g_fin_calls == OLD(g_fin_calls) + 1 && g_fin_last == aio && g_app_item == OLD(g_app_item) && HC_NO_IO && g_wrq.n == OLD(g_wrq.n) && conn->wr_uaio == OLD(conn->wr_uaio) && conn->wr_flavor == OLD(conn->wr_flavor)))
/* accepted: cancellable through http_wr_cancel, appended BEHIND what is already waiting, not completed */
__CPROVER_ensures((!conn->closed && g_start_ok) ==> (g_start_calls == OLD(g_start_calls) + 1 && g_start_aio == aio && g_start_fn == http_wr_cancel && g_start_arg == (void *) conn && g_app_list == &conn->wrq && g_app_item == aio && HC_NO_FIN))
/* ... and started at once iff nothing is in flight */
__CPROVER_ensures((!conn->closed && g_start_ok && OLD(conn->wr_uaio) != NULL) ==> (conn->wr_uaio == OLD(conn->wr_uaio) && g_wrq.n == OLD(g_wrq.n) + 1 && HC_NO_IO))
__CPROVER_ensures((!conn->closed && g_start_ok && OLD(conn->wr_uaio) == NULL) ==> (conn->wr_uaio == (OLD(g_wrq.n) > 0 ? OLD(g_wrq.head) : aio) && g_wrq.n == OLD(g_wrq.n) && HC_SEND_ARMED(conn) && conn->wr_flavor == flavor))
#ifdef HC_FLAVOR_PER_OP
/* C01: how the operation IN FLIGHT completes (all bytes / first write) must not change because another one is queued */
__CPROVER_ensures(OLD(conn->wr_uaio) != NULL ==> conn->wr_flavor == OLD(conn->wr_flavor))
#endif
;
#endif
