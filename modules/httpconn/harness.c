#define VP_SZ(v) do { v = nondet_size_t(); __CPROVER_assume(v < ((size_t) 1 << 40)); } while (0)
#define VP_HAVOC_Q(q) do { VP_SZ((q).n); (q).head = nondet_ptr(); (q).next = nondet_ptr(); (q).has_x = nondet_bool(); } while (0)
#define VP_HAVOC_GHOSTS()                                                     \
	do {                                                                      \
		g_k = nondet_size_t(); g_j = nondet_size_t(); g_n = nondet_size_t(); g_b = nondet_u8(); g_hk = nondet_size_t(); \
		VP_HAVOC_Q(g_rdq); VP_HAVOC_Q(g_wrq); g_rdq_addr = nondet_ptr(); g_wrq_addr = nondet_ptr(); \
		g_the_aio = nondet_ptr(); g_app_list = nondet_ptr(); g_app_item = nondet_ptr(); \
		VP_SZ(g_send_calls); VP_SZ(g_recv_calls); VP_SZ(g_sclose_calls); g_io_conn = nondet_ptr(); g_io_aio = nondet_ptr(); \
		VP_SZ(g_fin_calls); VP_SZ(g_fin_eclosed); g_fin_last = nondet_ptr(); g_fin_last_rv = nondet_int(); g_fin_last_count = nondet_size_t(); \
		g_start_ok = nondet_bool(); VP_SZ(g_start_calls); g_start_aio = nondet_ptr(); g_start_arg = nondet_ptr(); g_start_fn = NULL; \
		VP_SZ(g_abort_calls); g_abort_aio = nondet_ptr(); g_abort_rv = nondet_int(); \
		VP_SZ(g_aclose_calls); g_aclose_last = nondet_ptr(); g_aclose_prev = nondet_ptr(); \
		g_parse_rv_in = nondet_int(); g_parse_len_in = nondet_size_t(); g_parse_parsed_in = nondet_bool(); \
		VP_SZ(g_parse_calls); g_parse_kind = nondet_int(); g_parse_buf = nondet_ptr(); g_parse_n = nondet_size_t(); g_parse_arg = nondet_ptr(); \
		VP_SZ(g_status_calls); g_status_last = nondet_int();                  \
		VP_HAVOC_SYNC();                                                      \
	} while (0)

void h_pull_up(void) { nni_http_conn *c; VP_HAVOC_GHOSTS(); http_buf_pull_up(c); VP_CANARY(); }
void h_close(void)   { nni_http_conn *c; VP_HAVOC_GHOSTS(); http_close(c); VP_CANARY(); }
void h_rd_buf(void)  { nni_http_conn *c; nni_aio *a; VP_HAVOC_GHOSTS(); http_rd_buf(c, a); VP_CANARY(); }
void h_rd_cancel(void) { nni_aio *a; void *c; nng_err rv; VP_HAVOC_GHOSTS(); http_rd_cancel(a, c, rv); VP_CANARY(); }
void h_wr_cancel(void) { nni_aio *a; void *c; nng_err rv; VP_HAVOC_GHOSTS(); http_wr_cancel(a, c, rv); VP_CANARY(); }
void h_wr_start(void)  { nni_http_conn *c; VP_HAVOC_GHOSTS(); http_wr_start(c); VP_CANARY(); }
void h_wr_cb(void)     { void *c; VP_HAVOC_GHOSTS(); http_wr_cb(c); VP_CANARY(); }
void h_wr_submit(void) { nni_http_conn *c; nni_aio *a; enum write_flavor f; VP_HAVOC_GHOSTS(); http_wr_submit(c, a, f); VP_CANARY(); }
