/* Ghost state and model types of the httpconn environment; declared before the
 * real http_conn.c so that woven loop invariants can name them.
 *
 * Also pulls in the REAL src/core/aio.c (as modules/tcpframe does), so that
 * the scatter/gather helpers and plain accessors that http_conn.c calls on its
 * aios (nni_aio_set_iov, nni_aio_get_iov, nni_aio_iov_advance,
 * nni_aio_iov_count, nni_aio_count, nni_aio_bump_count, nni_aio_result,
 * nni_aio_reset, nni_aio_get/set_prov_data) are the real code, not models.
 * The functions of aio.c that need the aio run-time (task dispatch, expire
 * queue, intrusive lists, cancellation) are renamed away while aio.c is
 * compiled and are provided as ghost stubs by env.h. */
#ifndef VP_HTTPCONN_GHOST_H
#define VP_HTTPCONN_GHOST_H
#include "core/nng_impl.h"

#define nni_aio_finish        vp_rt_nni_aio_finish
#define nni_aio_finish_error  vp_rt_nni_aio_finish_error
#define nni_aio_finish_sync   vp_rt_nni_aio_finish_sync
#define nni_aio_finish_msg    vp_rt_nni_aio_finish_msg
#define nni_aio_list_init     vp_rt_nni_aio_list_init
#define nni_aio_list_append   vp_rt_nni_aio_list_append
#define nni_aio_list_remove   vp_rt_nni_aio_list_remove
#define nni_aio_list_active   vp_rt_nni_aio_list_active
#define nni_aio_start         vp_rt_nni_aio_start
#define nni_aio_abort         vp_rt_nni_aio_abort
#define nni_aio_close         vp_rt_nni_aio_close
#include "core/aio.c"
#undef nni_aio_finish
#undef nni_aio_finish_error
#undef nni_aio_finish_sync
#undef nni_aio_finish_msg
#undef nni_aio_list_init
#undef nni_aio_list_append
#undef nni_aio_list_remove
#undef nni_aio_list_active
#undef nni_aio_start
#undef nni_aio_abort
#undef nni_aio_close

/* wait queues of user aios (rdq, wrq): count + the first two members (real aio
 * objects where the code under contract looks inside them) + "the aio under
 * test (g_the_aio) is a member" for the cancel functions; the identities of
 * deeper members are unknown. */
typedef struct {
	size_t   n;
	nni_aio *head;
	nni_aio *next;  /* the one behind the head (n >= 2) */
	bool     has_x; /* g_the_aio is on this queue */
} vp_aioq;
vp_aioq   g_rdq, g_wrq;
nni_list *g_rdq_addr, *g_wrq_addr;
nni_aio  *g_the_aio;  /* the user aio under test (cancel / submit) */
nni_list *g_app_list; /* list and item of the last nni_list_append */
nni_aio  *g_app_item;

/* stream layer */
size_t      g_send_calls, g_recv_calls, g_sclose_calls;
nng_stream *g_io_conn; /* connection of the last send/recv/close */
nni_aio    *g_io_aio;  /* aio of the last send/recv */

/* completions of user aios */
size_t   g_fin_calls;
size_t   g_fin_eclosed; /* completions with NNG_ECLOSED */
nni_aio *g_fin_last;
int      g_fin_last_rv;
size_t   g_fin_last_count;

/* aio run-time: start (answer = pre-state ghost), abort, close */
bool              g_start_ok; /* what nni_aio_start will answer */
size_t            g_start_calls;
nni_aio          *g_start_aio;
nni_aio_cancel_fn g_start_fn;
void             *g_start_arg;
size_t            g_abort_calls;
nni_aio          *g_abort_aio;
int               g_abort_rv;
size_t            g_aclose_calls;
nni_aio          *g_aclose_last, *g_aclose_prev;

/* parsers (request head, response head, chunked body): the answer is a
 * pre-state ghost (consumed count is cut to the bytes offered) */
int     g_parse_rv_in;  /* result code the parser will give */
size_t  g_parse_len_in; /* bytes it will consume (min with the bytes offered) */
bool    g_parse_parsed_in; /* request line seen (req.data.parsed after the call) */
size_t  g_parse_calls;
int     g_parse_kind; /* 1 request, 2 response, 3 chunks */
void   *g_parse_buf;
size_t  g_parse_n;
void   *g_parse_arg; /* conn (1, 2) or chunk list (3) */

/* nng_http_set_status */
size_t g_status_calls;
int    g_status_last;
#endif
