/* Module-local memcpy model for the "entry view" unit of http_rd_buf
 * (-DHC_MEMCPY_NOCONTENT): checks that both regions exist, then havocs the
 * whole destination object.  Every behaviour of the real memcpy is a behaviour
 * of the model, so bounds, counts and vector arithmetic proved with it hold for
 * the real function; nothing can be concluded about the bytes copied (that is
 * the job of the unit hc_rd_buf_copy_bytes, which uses CBMC's memcpy). */
#ifndef VP_HTTPCONN_MEM_H
#define VP_HTTPCONN_MEM_H
#ifdef HC_MEMCPY_NOCONTENT
static inline void *
vp_memcpy_nc(void *dst, const void *src, size_t n)
{
	__CPROVER_assert(__CPROVER_r_ok(src, n), "memcpy source region readable");
	__CPROVER_assert(__CPROVER_w_ok(dst, n), "memcpy destination region writeable");
	if (n > 0) {
		__CPROVER_havoc_object(dst);
	}
	return (dst);
}
#define memcpy vp_memcpy_nc
#endif
#ifdef HC_MEMCPY_SKIP
/* "entry view" unit with opaque user buffers: the copy is checked on the source side only and moves nothing */
static inline void *
vp_memcpy_skip(void *dst, const void *src, size_t n)
{
	__CPROVER_assert(__CPROVER_r_ok(src, n), "memcpy source region readable");
	return (dst);
}
#define memcpy vp_memcpy_skip
#endif
#endif
