/* One entry per unit: arguments unconstrained, the precondition (assumed by
 * the DFCC wrapper) is the only restriction. */
#define VP_HAVOC_GHOSTS()                                            \
	do {                                                         \
		g_k             = nondet_size_t();                   \
		g_j             = nondet_size_t();                   \
		g_n             = nondet_size_t();                   \
		g_m             = nondet_size_t();                   \
		g_b             = nondet_u8();                       \
		g_ob            = nondet_u8();                       \
		g_exit          = nondet_size_t();                   \
		g_base          = nondet_ptr();                      \
		g_free_calls    = nondet_size_t();                   \
		g_alloc_ok      = nondet_size_t();                   \
		g_alloc_refused = nondet_size_t();                   \
		__CPROVER_assume(g_alloc_ok < ((size_t) 1 << 40));   \
		__CPROVER_assume(g_free_calls < ((size_t) 1 << 40)); \
		__CPROVER_assume(g_alloc_refused < ((size_t) 1 << 40)); \
	} while (0)

void h_decode(void) { uint8_t *o; char *in; size_t m; VP_HAVOC_GHOSTS(); nni_url_decode(o, in, m); VP_CANARY(); }
void h_url_fini(void) { nng_url *u; VP_HAVOC_GHOSTS(); nni_url_fini(u); VP_CANARY(); }
void h_url_free(void) { nng_url *u; VP_HAVOC_GHOSTS(); nng_url_free(u); VP_CANARY(); }
void h_parse_inline(void) { nng_url *u; char *raw; VP_HAVOC_GHOSTS(); nni_url_parse_inline(u, raw); VP_CANARY(); }
void h_url_parse(void) { nng_url **up; char *raw; VP_HAVOC_GHOSTS(); nng_url_parse(up, raw); VP_CANARY(); }
void h_resolve_port(void) { nng_url *u; uint32_t p; VP_HAVOC_GHOSTS(); nng_url_resolve_port(u, p); VP_CANARY(); }
void h_default_port(void) { char *sch; VP_HAVOC_GHOSTS(); vp_tables_init(); nni_url_default_port(sch); VP_CANARY(); }
