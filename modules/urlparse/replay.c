/* Native replay driver for nni_url_decode (src/core/url.c): rebuilds the input string of
 * a CBMC counterexample (entry snapshot vp_in_n = its length, vp_in_s0..31 = its bytes,
 * vp_arg_max_len), runs the REAL function under ASan/UBSan with the string in a heap block
 * of exactly n+1 bytes and the output in a block of exactly max_len bytes (a read past
 * the terminator or a write past max_len is reported) and checks the result against
 * RFC 3986 section 2.1 in plain C: accepted iff every '%' is followed by two hexadecimal
 * digits and the decoded text fits into max_len; then the result is the decoded length,
 * the output holds the decoded bytes and nothing behind them was written. */
#include "vp_native.h"
#include "core/url.c" /* the real file, via -I/repo/src */

void *nni_alloc(size_t sz) { return (sz ? malloc(sz) : NULL); }
void *nni_zalloc(size_t sz) { return (sz ? calloc(1, sz) : NULL); }
void  nni_free(void *p, size_t sz) { (void) sz; free(p); }
char *
nni_strdup(const char *s)
{
	size_t l = strlen(s) + 1;
	char  *d = nni_alloc(l);
	if (d != NULL)
		memcpy(d, s, l);
	return d;
}
int      nni_get_port_by_name(const char *name, uint32_t *portp) { (void) name; (void) portp; return NNG_EADDRINVAL; }
void     nni_aio_init(nni_aio *a, nni_cb cb, void *arg) { (void) a; (void) cb; (void) arg; }
void     nni_aio_fini(nni_aio *a) { (void) a; }
void     nni_aio_wait(nni_aio *a) { (void) a; }
nng_err  nni_aio_result(nni_aio *a) { (void) a; return NNG_ENOTSUP; }
void     nni_resolv(nni_resolv_item *ri, nni_aio *a) { (void) ri; (void) a; }

#define NSNAP 32
#define FAILV ((size_t) -1)
static int
xd(uint8_t c)
{
	return ((c >= '0' && c <= '9') || (c >= 'A' && c <= 'F') || (c >= 'a' && c <= 'f'));
}
static unsigned
xv(uint8_t c)
{
	return (c <= '9' ? c - '0' : (c <= 'F' ? c - 'A' + 10 : c - 'a' + 10));
}

int
main(int argc, char **argv)
{
	if (argc < 2) {
		fprintf(stderr, "usage: replay <inputs> [function]\n");
		return 2;
	}
	vp_load(argv[1]);
	if (argc > 2 && strcmp(argv[2], "nni_url_decode") != 0) {
		printf("REPLAY-RESULT: skipped (no native driver for %s)\n", argv[2]);
		return 3;
	}
	if (!vp_has("vp_in_n")) {
		printf("REPLAY-RESULT: skipped (trace has no entry snapshot)\n");
		return 3;
	}
	size_t n = vp_u64("vp_in_n", 0), max_len = vp_u64("vp_arg_max_len", 0);
	if (n > ((size_t) 1 << 20) || max_len > ((size_t) 1 << 20)) {
		printf("REPLAY-RESULT: skipped (string of %zu bytes / output of %zu bytes too large to build natively)\n", n, max_len);
		return 3;
	}
	char *in = malloc(n + 1);
	for (size_t i = 0; i < n; i++) {
		char k[24];
		snprintf(k, sizeof(k), "vp_in_s%zu", i);
		in[i] = (char) (i < NSNAP ? vp_u64(k, 'x') : 'x');
		if (in[i] == 0) { /* the string is what precedes the first 0 */
			n = i;
			break;
		}
	}
	in[n] = 0;
	if (n > NSNAP)
		printf("note: only the first %d bytes come from the counterexample, the others are 'x'\n", NSNAP);
	/* reference decoding */
	uint8_t *want = malloc(n + 1);
	size_t   wl = 0;
	int      ok = 1;
	for (size_t i = 0; i < n;) {
		if (in[i] == '%') {
			if (!(xd((uint8_t) in[i + 1]) && (i + 2 <= n) && xd((uint8_t) in[i + 2]))) {
				ok = 0;
				break;
			}
			want[wl++] = (uint8_t) (xv((uint8_t) in[i + 1]) * 16 + xv((uint8_t) in[i + 2]));
			i += 3;
		} else {
			want[wl++] = (uint8_t) in[i++];
		}
	}
	size_t   expect = (ok && wl <= max_len) ? wl : FAILV;
	uint8_t *out    = malloc(max_len ? max_len : 1);
	memset(out, 0xEE, max_len ? max_len : 1);
	uint8_t *out_blk = max_len ? out : NULL;
	/* exactly max_len bytes: for max_len == 0 hand over the end of a block */
	size_t rv = nni_url_decode(max_len ? out : out + 1, in, max_len);
	printf("nni_url_decode(\"");
	for (size_t i = 0; i < n; i++) {
		if ((uint8_t) in[i] >= 0x20 && (uint8_t) in[i] < 0x7f && in[i] != '"' && in[i] != '\\')
			printf("%c", in[i]);
		else
			printf("\\x%02X", (uint8_t) in[i]);
	}
	if (rv == FAILV)
		printf("\", max_len=%zu) -> refused", max_len);
	else
		printf("\", max_len=%zu) -> %zu", max_len, rv);
	if (expect == FAILV)
		printf("; RFC 3986: refused (%s)\n", ok ? "decoded text longer than max_len" : "'%' not followed by two hex digits");
	else
		printf("; RFC 3986: %zu bytes\n", expect);
	VP_EXPECT(rv == FAILV || (rv <= max_len && rv <= n));
	VP_EXPECT(rv == expect);
	if (rv != FAILV && rv == expect) {
		VP_EXPECT(memcmp(out, want, rv) == 0);
		for (size_t j = rv; j < max_len; j++)
			VP_EXPECT(out[j] == 0xEE);
	}
	for (size_t j = n; j < max_len; j++)
		VP_EXPECT(out[j] == 0xEE);
	(void) out_blk;
	free(out);
	free(want);
	free(in);
	VP_DONE();
}
