/* Environment of url.c for module urlparse (ASSUMED models, ghost accounting
 * only).  Allocator, nni_strdup and the table copies are the text of
 * modules/url/env.h (that module may not be edited; its vp_snprintf only knows
 * "%s", its port stub does not interpret the name).
 *
 * Allocator: same model as include/env_alloc.h (nni_alloc = sz > 0 ? malloc :
 * NULL, malloc may fail, sized-free assertion) plus one more ghost counter,
 * g_alloc_refused, that counts the NON-EMPTY requests the allocator refused:
 * "NNG_ENOMEM only when memory really was refused" needs it. */
void *
nni_alloc(size_t sz)
{
	void *p = (sz > 0 ? malloc(sz) : NULL);
	if (p != NULL) {
		g_alloc_ok++;
	} else if (sz > 0) {
		g_alloc_refused++;
	}
	return (p);
}

void *
nni_zalloc(size_t sz)
{
	void *p = (sz > 0 ? calloc(1, sz) : NULL);
	if (p != NULL) {
		g_alloc_ok++;
	} else if (sz > 0) {
		g_alloc_refused++;
	}
	return (p);
}

void
nni_free(void *ptr, size_t size)
{
	if (ptr != NULL) {
		g_free_calls++;
		__CPROVER_assert(__CPROVER_OBJECT_SIZE(ptr) == size,
		    "sized free: nni_free size equals allocation size");
		__CPROVER_assert(__CPROVER_POINTER_OFFSET(ptr) == 0,
		    "sized free: nni_free of block start");
	}
	free(ptr);
}

/* nni_strdup (src/core/strs.c): same body as the real one. */
char *
nni_strdup(const char *src)
{
	char  *dst;
	size_t len;
#if defined(UP_NO_STRDUP)
	/* size-capped units: inputs shorter than the 128-byte inline buffer
	 * never reach the heap path; proving that here lets symex drop the
	 * symbolic-size heap object (it made the array encoding explode). */
	__CPROVER_assert(0, "nni_strdup unreachable for inputs shorter than the inline buffer");
	__CPROVER_assume(0);
#endif
	len = strlen(src) + 1;

	if ((dst = nni_alloc(len)) != NULL) {
		memcpy(dst, src, len);
	}
	return (dst);
}

/* Port resolver: the REAL nni_get_port_by_name is part of the TU
 * (src/platform/posix/posix_resolv_gai.c is a source of this module); strtol is
 * CBMC's library model, getservbyname the stub in harness_bmc.c. */

/* snprintf: CBMC has no body for it.  ASSUMED model of the C library function
 * for the conversions url.c uses (%s, %u, literal text): writes at most n-1
 * characters and a terminator (n > 0), returns the untruncated length.  Any
 * other conversion trips an assertion. */
#include <stdarg.h>
#define VP_PUT(ch)                         \
	do {                               \
		if (pos + 1 < n) {         \
			dst[pos] = (ch);   \
		}                          \
		pos++;                     \
	} while (0)
int
vp_snprintf(char *dst, size_t n, const char *fmt, ...)
{
	va_list ap;
	size_t  pos = 0;
	va_start(ap, fmt);
	for (; *fmt != 0; fmt++) {
		if (*fmt != '%') {
			VP_PUT(*fmt);
			continue;
		}
		fmt++;
		if (*fmt == 's') {
			const char *s = va_arg(ap, const char *);
			for (size_t i = 0; s[i] != 0; i++) {
				VP_PUT(s[i]);
			}
		} else if (*fmt == 'u') {
			unsigned v = va_arg(ap, unsigned);
			char     tmp[10];
			int      t = 0;
			do {
				tmp[t++] = (char) ('0' + (v % 10));
				v /= 10;
			} while (v != 0);
			while (t > 0) {
				t--;
				VP_PUT(tmp[t]);
			}
		} else {
			__CPROVER_assert(0, "snprintf model: only %s and %u are modelled");
		}
	}
	va_end(ap);
	if (n > 0) {
		dst[pos < n ? pos : n - 1] = 0;
	}
	return ((int) pos);
}

/* Static tables of url.c.  goto-instrument --dfcc gives every non-const
 * static an arbitrary initial value; nni_schemes[] and
 * nni_url_default_ports[] are never assigned anywhere in url.c, so their
 * initialisers are what the running library sees.  ASSUMED (and checked by
 * unit tables_match, which runs WITHOUT DFCC and therefore sees the real
 * initialisers): the copies below equal the tables in url.c.  Harnesses that
 * reach the tables call vp_tables_init() first. */
#define VP_SCHEMES(X) \
	X(0, "http") \
	X(1, "https") \
	X(2, "tcp") \
	X(3, "tcp4") \
	X(4, "tcp6") \
	X(5, "tls+tcp") \
	X(6, "tls+tcp4") \
	X(7, "tls+tcp6") \
	X(8, "socket") \
	X(9, "inproc") \
	X(10, "ipc") \
	X(11, "unix") \
	X(12, "abstract") \
	X(13, "ws") \
	X(14, "ws4") \
	X(15, "ws6") \
	X(16, "wss") \
	X(17, "wss4") \
	X(18, "wss6") \
	X(19, "udp") \
	X(20, "udp4") \
	X(21, "udp6") \
	X(22, "dtls") \
	X(23, "dtls4") \
	X(24, "dtls6") \
	X(25, "file") \
	X(26, "mailto") \
	X(27, "gopher") \
	X(28, "ftp") \
	X(29, "ssh") \
	X(30, "git") \
	X(31, "telnet") \
	X(32, "irc") \
	X(33, "imap") \
	X(34, "imaps")
#define VP_PORTS(X) \
	X(0, "git", 9418) \
	X(1, "gopher", 70) \
	X(2, "http", 80) \
	X(3, "https", 443) \
	X(4, "ssh", 22) \
	X(5, "telnet", 23) \
	X(6, "ws", 80) \
	X(7, "ws4", 80) \
	X(8, "ws6", 80) \
	X(9, "wss", 443) \
	X(10, "wss4", 443) \
	X(11, "wss6", 443)
#define VP_NSCHEMES 35
#define VP_NPORTS 12
#define VP_NELEM(a) (sizeof(a) / sizeof((a)[0]))
/* loop-free on purpose (no unwinding bound needed in the units that use it) */
static void
vp_tables_init(void)
{
#define X(i, n) nni_schemes[i] = n;
	VP_SCHEMES(X)
#undef X
	nni_schemes[VP_NSCHEMES] = NULL;
#define X(i, n, p)                            \
	nni_url_default_ports[i].scheme = n;  \
	nni_url_default_ports[i].port   = p;
	VP_PORTS(X)
#undef X
	nni_url_default_ports[VP_NPORTS].scheme = NULL;
	nni_url_default_ports[VP_NPORTS].port   = 0;
}
