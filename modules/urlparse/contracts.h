/* Contracts of module urlparse for src/core/url.c (redeclarations after the
 * definitions).  Top-level postconditions are taken from property C19 (strict
 * acceptance, canonical and idempotent output, sprintf/parse round trip) and
 * RFC 3986 (escapes, normalisation), not from the code. */
#ifndef VP_URLPARSE_CONTRACTS_H
#define VP_URLPARSE_CONTRACTS_H

#define RV __CPROVER_return_value
#define OLD(e) __CPROVER_old(e)
#define UP_FAIL ((size_t) -1)

/* reachability probes (only with -DUP_COVER, never in a registered unit): each must FAIL */
#ifdef UP_COVER
#define COVER(c) __CPROVER_ensures(!(c))
#else
#define COVER(c)
#endif

/* ---- url_hex_val (same text as modules/url) ------------------------------ */
static uint8_t url_hex_val(char c)
    /* clang-format off */
__CPROVER_assigns()
__CPROVER_ensures(RV <= 15)
__CPROVER_ensures((c >= '0' && c <= '9') ==> RV == c - '0')
__CPROVER_ensures((c >= 'A' && c <= 'F') ==> RV == 10 + (c - 'A'))
__CPROVER_ensures((c >= 'a' && c <= 'f') ==> RV == 10 + (c - 'a'))
    /* clang-format on */
    ;

/* ---- nni_url_decode --------------------------------------------------------
 * Two contract texts.
 *  default (grade P, loop closed by the woven invariant): input = any object of
 *    g_n+1 bytes ending in 0 (the string is what precedes the FIRST 0), output
 *    = an object of exactly max_len bytes, any sizes.  Memory safety, result is
 *    the failure value or <= max_len and <= input length, and output bytes at
 *    or beyond the result (in particular beyond the input length) keep their
 *    old value (free ghost index g_j / byte g_ob).
 *  UP_DEC_CONTENT (grade Pb, input <= 24 bytes, unwound): the decoded bytes.
 *    For an ACCEPTED string every '%' is followed by two hex digits; token
 *    starts are the indices not within two places after a '%'; the token at
 *    index g_k lands at output index g_k - 2 * (number of '%' before g_k) and
 *    is the escape value / the literal byte; the result is n - 2 * (number of
 *    '%').  REJECTED => some '%' is not followed by two hex digits (bad hex or
 *    truncated escape) or the decoded length exceeds max_len. */
#ifndef UP_DEC_CONTENT
size_t nni_url_decode(uint8_t *out, const char *in, size_t max_len)
    /* clang-format off */
__CPROVER_requires(g_n < URL_STR_MAX && __CPROVER_is_fresh(in, g_n + 1) && in[g_n] == 0)
__CPROVER_requires(max_len < URL_STR_MAX && __CPROVER_is_fresh(out, max_len))
__CPROVER_requires(g_j < max_len ==> g_ob == out[g_j])
__CPROVER_assigns(__CPROVER_object_whole(out), g_exit)
__CPROVER_ensures(RV == UP_FAIL || (RV <= max_len && RV <= g_n))
__CPROVER_ensures((g_j < max_len && g_j >= g_n) ==> out[g_j] == g_ob)
__CPROVER_ensures((RV != UP_FAIL && g_j < max_len && g_j >= RV) ==> out[g_j] == g_ob)
COVER(RV != UP_FAIL && RV == 5 && g_n == 9)
COVER(RV == UP_FAIL && max_len > g_n)
    /* clang-format on */
    ;
#else
#define DEC_NOWRAP(in) (2 * UP_PCT_BEFORE(in, g_n) <= g_n)
size_t nni_url_decode(uint8_t *out, const char *in, size_t max_len)
    /* clang-format off */
/* constant-size objects (a symbolic-size output object or a symbolic string
 * offset ran out of memory): reads past the terminator / writes past max_len
 * are excluded for ALL sizes by the grade-P text above */
__CPROVER_requires(g_n <= UP_DEC_CAP && __CPROVER_is_fresh(in, UP_DEC_CAP + 3) && in[g_n] == 0)
__CPROVER_requires(__CPROVER_forall { size_t vp_d0; (vp_d0 < UP_DEC_CAP) ==> ((vp_d0 < g_n) ==> in[vp_d0] != 0) })
__CPROVER_requires(max_len <= UP_DEC_CAP + 2 && __CPROVER_is_fresh(out, UP_DEC_CAP + 2))
__CPROVER_assigns(__CPROVER_object_whole(out), g_exit)
#if !defined(UP_DEC_ONLY) || UP_DEC_ONLY == 1
/* result: failure value, or the decoded length */
__CPROVER_ensures(RV == UP_FAIL || (RV <= max_len && RV + 2 * UP_PCT_BEFORE(in, g_n) == g_n))
#endif
#if !defined(UP_DEC_ONLY) || UP_DEC_ONLY == 2
/* accepted => every escape is well formed */
__CPROVER_ensures((RV != UP_FAIL && g_k < g_n && in[g_k] == '%') ==> UP_ESC_OK(in, g_k))
#endif
#if !defined(UP_DEC_ONLY) || UP_DEC_ONLY == 3
/* accepted => output bytes */
__CPROVER_ensures((RV != UP_FAIL && g_k < g_n && UP_TOKSTART(in, g_k)) ==>
    out[g_k - 2 * UP_PCT_BEFORE(in, g_k)] == (in[g_k] == '%' ? UP_ESCVAL(in, g_k) : (uint8_t) in[g_k]))
#endif
#if !defined(UP_DEC_ONLY) || UP_DEC_ONLY == 4
/* rejected => for a reason, witnessed by the scan offset at the return
 * (ghost g_exit, woven before every return): the byte before it is a '%' not
 * followed by two hex digits (bad hex / truncated escape), or input remains
 * although the prefix already decodes to max_len bytes */
__CPROVER_ensures(RV == UP_FAIL ==> (g_exit <= g_n &&
    ((g_exit >= 1 && in[g_exit - 1] == '%' && !(UP_XD(in[g_exit]) && UP_XD(in[g_exit + 1]))) ||
        (g_exit < g_n && g_exit >= max_len + 2 * UP_PCT_BEFORE(in, g_exit)))))
#endif
COVER(RV != UP_FAIL && g_n == 24 && RV == 10)
COVER(RV == UP_FAIL && g_n == 24 && max_len == 26)
COVER(RV != UP_FAIL && g_k == 20 && g_k < g_n && UP_TOKSTART(in, g_k) && in[g_k] == '%' && UP_PCT_BEFORE(in, g_k) == 3)
    /* clang-format on */
    ;
#endif

/* ---- ownership: nni_url_fini / nng_url_free / nni_url_parse_inline /
 * nng_url_parse ------------------------------------------------------------
 * Representation (core/url.h): the components live in ONE storage area, either
 * the inline array u_static (u_bufsz == 0) or a heap block of exactly u_bufsz
 * bytes owned by the structure. */
#define UP_OWN_PRE(u)                                         \
	((u)->u_bufsz == 0 ||                                 \
	    ((u)->u_bufsz <= URL_HEAP_MAX &&                  \
	        __CPROVER_is_fresh((u)->u_buffer, (u)->u_bufsz)))

void nni_url_fini(nng_url *url)
    /* clang-format off */
__CPROVER_requires(__CPROVER_is_fresh(url, sizeof(nng_url)) && UP_OWN_PRE(url))
__CPROVER_assigns(url->u_bufsz != 0: url->u_buffer, url->u_bufsz, g_free_calls)
__CPROVER_frees(url->u_bufsz != 0: url->u_buffer)
__CPROVER_ensures(url->u_bufsz == 0)
__CPROVER_ensures(OLD(url->u_bufsz) != 0 ==> (url->u_buffer == NULL && g_free_calls == OLD(g_free_calls) + 1))
__CPROVER_ensures(OLD(url->u_bufsz) == 0 ==> g_free_calls == OLD(g_free_calls))
COVER(OLD(url->u_bufsz) == 200)
    /* clang-format on */
    ;

/* g_m := url->u_bufsz (ghost equation; old() would dereference a NULL url) */
void nng_url_free(nng_url *url)
    /* clang-format off */
__CPROVER_requires(url == NULL || (__CPROVER_is_fresh(url, sizeof(nng_url)) && UP_OWN_PRE(url) && g_m == url->u_bufsz))
__CPROVER_assigns(g_free_calls)
__CPROVER_assigns(url != NULL && url->u_bufsz != 0: url->u_buffer, url->u_bufsz)
__CPROVER_frees(url)
__CPROVER_frees(url != NULL && url->u_bufsz != 0: url->u_buffer)
__CPROVER_ensures(url == NULL ==> g_free_calls == OLD(g_free_calls))
__CPROVER_ensures((url != NULL && g_m == 0) ==> g_free_calls == OLD(g_free_calls) + 1)
__CPROVER_ensures((url != NULL && g_m != 0) ==> g_free_calls == OLD(g_free_calls) + 2)
COVER(url != NULL && g_m == 300)
    /* clang-format on */
    ;

/* ASSUMED in the ownership units (replaces the call; the functional units
 * below exercise the real body): whatever the parser decides, it leaves the
 * zero-initialised structure either without heap storage (u_bufsz == 0, no
 * allocation survived) or owning ONE fresh block of exactly u_bufsz bytes;
 * NNG_ENOMEM only when an allocation was refused. */
#ifdef UP_INNER_OWN
static nng_err nni_url_parse_inline_inner(nng_url *url, const char *raw)
    /* clang-format off */
__CPROVER_requires(__CPROVER_is_fresh(url, sizeof(nng_url)) && URL_ZEROED(url))
__CPROVER_requires(g_n < URL_STR_MAX && __CPROVER_is_fresh(raw, g_n + 1) && raw[g_n] == 0)
__CPROVER_assigns(*url, g_alloc_ok, g_alloc_refused)
__CPROVER_ensures(RV == NNG_OK || RV == NNG_EINVAL || RV == NNG_ENOTSUP || RV == NNG_ENOMEM)
__CPROVER_ensures(url->u_bufsz == 0 ==> g_alloc_ok == OLD(g_alloc_ok))
__CPROVER_ensures(url->u_bufsz != 0 ==> (g_alloc_ok == OLD(g_alloc_ok) + 1 && url->u_bufsz <= URL_HEAP_MAX && __CPROVER_is_fresh(url->u_buffer, url->u_bufsz)))
__CPROVER_ensures(RV == NNG_ENOMEM ==> (url->u_bufsz == 0 && g_alloc_refused == OLD(g_alloc_refused) + 1))
__CPROVER_ensures(RV != NNG_ENOMEM ==> g_alloc_refused == OLD(g_alloc_refused))
__CPROVER_ensures((RV == NNG_OK && url->u_bufsz == 0) ==> url->u_buffer == &url->u_static[0])
    /* clang-format on */
    ;
#endif

/* nni_url_parse_inline: success => storage owned as above; failure => the
 * heap block (if any) has been released again, nothing is left allocated, and
 * NNG_ENOMEM is reported only when memory was refused (C20). */
nng_err nni_url_parse_inline(nng_url *url, const char *raw)
    /* clang-format off */
__CPROVER_requires(__CPROVER_is_fresh(url, sizeof(nng_url)) && URL_ZEROED(url))
__CPROVER_requires(g_n < URL_STR_MAX && __CPROVER_is_fresh(raw, g_n + 1) && raw[g_n] == 0)
__CPROVER_assigns(*url, g_alloc_ok, g_alloc_refused, g_free_calls)
__CPROVER_ensures(RV == NNG_OK || RV == NNG_EINVAL || RV == NNG_ENOTSUP || RV == NNG_ENOMEM)
__CPROVER_ensures(RV != NNG_OK ==> (url->u_bufsz == 0 && ((g_alloc_ok == OLD(g_alloc_ok) && g_free_calls == OLD(g_free_calls)) || (g_alloc_ok == OLD(g_alloc_ok) + 1 && g_free_calls == OLD(g_free_calls) + 1))))
__CPROVER_ensures(RV == NNG_ENOMEM ==> g_alloc_refused == OLD(g_alloc_refused) + 1)
__CPROVER_ensures(RV != NNG_ENOMEM ==> g_alloc_refused == OLD(g_alloc_refused))
__CPROVER_ensures(RV == NNG_OK ==> g_free_calls == OLD(g_free_calls))
__CPROVER_ensures((RV == NNG_OK && url->u_bufsz == 0) ==> (g_alloc_ok == OLD(g_alloc_ok) && url->u_buffer == &url->u_static[0]))
__CPROVER_ensures((RV == NNG_OK && url->u_bufsz != 0) ==> (g_alloc_ok == OLD(g_alloc_ok) + 1 && url->u_bufsz <= URL_HEAP_MAX && __CPROVER_is_fresh(url->u_buffer, url->u_bufsz)))
COVER(RV == NNG_EINVAL && g_free_calls == OLD(g_free_calls) + 1)
COVER(RV == NNG_OK && url->u_bufsz == 400)
    /* clang-format on */
    ;

/* nng_url_parse: success => *urlp is a fresh structure owning its storage;
 * failure => *urlp untouched, every block allocated on the way released,
 * NNG_ENOMEM iff an allocation was refused. */
nng_err nng_url_parse(nng_url **urlp, const char *raw)
    /* clang-format off */
__CPROVER_requires(__CPROVER_is_fresh(urlp, sizeof(*urlp)))
__CPROVER_requires(g_n < URL_STR_MAX && __CPROVER_is_fresh(raw, g_n + 1) && raw[g_n] == 0)
__CPROVER_assigns(*urlp, g_alloc_ok, g_alloc_refused, g_free_calls)
__CPROVER_ensures(RV == NNG_OK || RV == NNG_EINVAL || RV == NNG_ENOTSUP || RV == NNG_ENOMEM)
__CPROVER_ensures(RV != NNG_OK ==> *urlp == OLD(*urlp))
__CPROVER_ensures(RV != NNG_OK ==> (g_alloc_ok - OLD(g_alloc_ok)) == (g_free_calls - OLD(g_free_calls)))
__CPROVER_ensures(RV == NNG_ENOMEM ==> g_alloc_refused == OLD(g_alloc_refused) + 1)
__CPROVER_ensures(RV != NNG_ENOMEM ==> g_alloc_refused == OLD(g_alloc_refused))
__CPROVER_ensures(RV == NNG_OK ==> (g_free_calls == OLD(g_free_calls) && __CPROVER_is_fresh(*urlp, sizeof(nng_url))))
__CPROVER_ensures((RV == NNG_OK && (*urlp)->u_bufsz == 0) ==> (g_alloc_ok == OLD(g_alloc_ok) + 1 && (*urlp)->u_buffer == &(*urlp)->u_static[0]))
__CPROVER_ensures((RV == NNG_OK && (*urlp)->u_bufsz != 0) ==> (g_alloc_ok == OLD(g_alloc_ok) + 2 && __CPROVER_is_fresh((*urlp)->u_buffer, (*urlp)->u_bufsz)))
COVER(RV == NNG_ENOMEM && g_alloc_ok == OLD(g_alloc_ok) + 1)
COVER(RV == NNG_EINVAL && g_free_calls == OLD(g_free_calls) + 2)
    /* clang-format on */
    ;

/* ---- nni_url_default_port: EXACT value (modules/url only bounds the range).
 * Any NUL-terminated scheme string of any length; loops are bounded by the
 * table (12 entries, names <= 6 characters). */
uint16_t nni_url_default_port(const char *scheme)
    /* clang-format off */
__CPROVER_requires(g_n < URL_STR_MAX && __CPROVER_is_fresh(scheme, g_n + 1) && scheme[g_n] == 0)
__CPROVER_assigns()
__CPROVER_ensures(RV == UP_DEFPORT(scheme))
COVER(RV == 443 && g_n == 4)
COVER(RV == 0 && g_n == 5 && scheme[0] == 'h')
    /* clang-format on */
    ;

/* ---- nng_url_resolve_port: fills in a port only when none is set --------- */
void nng_url_resolve_port(nng_url *url, uint32_t port)
    /* clang-format off */
__CPROVER_requires(__CPROVER_is_fresh(url, sizeof(nng_url)))
__CPROVER_assigns(url->u_port)
__CPROVER_ensures(OLD(url->u_port) != 0 ==> url->u_port == OLD(url->u_port))
__CPROVER_ensures(OLD(url->u_port) == 0 ==> url->u_port == port)
    /* clang-format on */
    ;

#endif
