/* Entry snapshot for the native replay of nni_url_decode (macros only; read by
 * vp/replay.py from the CBMC trace).  g_n = length of the input string (ghost of the
 * contract); the first 32 bytes of the string; no proof obligation on the reads. */
#ifndef VP_URLPARSE_SNAP_H
#define VP_URLPARSE_SNAP_H
#define VP_USNAP_BEGIN                                                             \
	_Pragma("CPROVER check push") _Pragma("CPROVER check disable \"pointer\"")   \
	_Pragma("CPROVER check disable \"bounds\"")                                  \
	_Pragma("CPROVER check disable \"pointer-primitive\"")                       \
	_Pragma("CPROVER check disable \"pointer-overflow\"")
#define VP_USNAP_END _Pragma("CPROVER check pop")
#define VP_SNAP_DB(i) uint8_t vp_in_s##i = ((size_t) (i) <= g_n) ? (uint8_t) in[i] : (uint8_t) 0
#define VP_SNAP_DECODE()                                                           \
	VP_USNAP_BEGIN                                                                 \
	size_t vp_in_n = g_n, vp_arg_max_len = max_len;                                \
	VP_SNAP_DB(0); VP_SNAP_DB(1); VP_SNAP_DB(2); VP_SNAP_DB(3); VP_SNAP_DB(4); VP_SNAP_DB(5); VP_SNAP_DB(6); VP_SNAP_DB(7); \
	VP_SNAP_DB(8); VP_SNAP_DB(9); VP_SNAP_DB(10); VP_SNAP_DB(11); VP_SNAP_DB(12); VP_SNAP_DB(13); VP_SNAP_DB(14); VP_SNAP_DB(15); \
	VP_SNAP_DB(16); VP_SNAP_DB(17); VP_SNAP_DB(18); VP_SNAP_DB(19); VP_SNAP_DB(20); VP_SNAP_DB(21); VP_SNAP_DB(22); VP_SNAP_DB(23); \
	VP_SNAP_DB(24); VP_SNAP_DB(25); VP_SNAP_DB(26); VP_SNAP_DB(27); VP_SNAP_DB(28); VP_SNAP_DB(29); VP_SNAP_DB(30); VP_SNAP_DB(31); \
	VP_USNAP_END
#define VP_SNAP_NDB 32
#endif
