/* Spec macros of module urlparse (no nng code).  Included BEFORE the real
 * source, after modules/url/spec.h (reused unchanged: ctype/snprintf
 * redirection, URL_* representation macros, STR_* string macros, g_base). */
#ifndef VP_URLPARSE_SPEC_H
#define VP_URLPARSE_SPEC_H

/* ---- percent escapes ---------------------------------------------------- */
#define UP_XD(c) \
	(((c) >= '0' && (c) <= '9') || ((c) >= 'a' && (c) <= 'f') || ((c) >= 'A' && (c) <= 'F'))
/* value of a hex digit, either case (RFC 3986 2.1) */
#define UP_XV(c) ((c) <= '9' ? (c) - '0' : (c) <= 'F' ? (c) - 'A' + 10 : (c) - 'a' + 10)
#define UP_ESCVAL(p, i) ((uint8_t) (UP_XV((p)[(i) + 1]) * 16 + UP_XV((p)[(i) + 2])))

/* number of '%' in p[0..k), k <= 24: constant-bound sum (size cap of the Pb
 * units that use it: 24 bytes) */
#define UP_P1(p, k, i) (((size_t) (i) < (k) && (p)[(i)] == '%') ? (size_t) 1 : (size_t) 0)
#define UP_PCT_BEFORE(p, k)                                                       \
	(UP_P1(p, k, 0) + UP_P1(p, k, 1) + UP_P1(p, k, 2) + UP_P1(p, k, 3) +      \
	    UP_P1(p, k, 4) + UP_P1(p, k, 5) + UP_P1(p, k, 6) + UP_P1(p, k, 7) +   \
	    UP_P1(p, k, 8) + UP_P1(p, k, 9) + UP_P1(p, k, 10) + UP_P1(p, k, 11) + \
	    UP_P1(p, k, 12) + UP_P1(p, k, 13) + UP_P1(p, k, 14) +                 \
	    UP_P1(p, k, 15) + UP_P1(p, k, 16) + UP_P1(p, k, 17) +                 \
	    UP_P1(p, k, 18) + UP_P1(p, k, 19) + UP_P1(p, k, 20) +                 \
	    UP_P1(p, k, 21) + UP_P1(p, k, 22) + UP_P1(p, k, 23))
/* in a string whose every '%' starts a well-formed escape (hex digits are
 * not '%'), index k starts a token iff neither of the two bytes before it
 * is '%' */
#define UP_TOKSTART(p, k) \
	(!((k) >= 1 && (p)[(k) - 1] == '%') && !((k) >= 2 && (p)[(k) - 2] == '%'))
/* the escape at index i (p[i] == '%') is well formed; short-circuit keeps the
 * reads inside the string */
#define UP_ESC_OK(p, i) (UP_XD((p)[(i) + 1]) && UP_XD((p)[(i) + 2]))

#define URL_ZEROED(d)                                                        \
	((d)->u_scheme == NULL && (d)->u_userinfo == NULL &&                 \
	    (d)->u_hostname == NULL && (d)->u_port == 0 &&                   \
	    (d)->u_path == NULL && (d)->u_query == NULL &&                   \
	    (d)->u_fragment == NULL && (d)->u_buffer == NULL && (d)->u_bufsz == 0)

#define UP_DEC_CAP 24

/* loop invariant of nni_url_decode (woven; text selected per unit).
 * DEC_O = scan offset, DEC_B = start of the input object. */
#define DEC_O(in) ((size_t) __CPROVER_POINTER_OFFSET(in))
#define DEC_B(in) ((const char *) (in) - DEC_O(in))
/* output bytes at or beyond len still have their old value */
#define DEC_INV_FRAME(out, len, max_len) (((g_j < (max_len)) && g_j >= (len)) ==> (out)[g_j] == g_ob)

/* ---- default port table as a specification (url.c nni_url_default_ports[],
 * checked against the real initialisers by unit tables_match of modules/url):
 * a scheme has the default port of the table entry it EQUALS, optionally
 * followed by the address-family suffix "4" or "6" (NNG extension). */
#define UP_C(s, l, i) ((i) >= sizeof(l) - 1 || (s)[(i)] == (l)[(i)])
#define UP_STARTS(s, l) \
	(UP_C(s, l, 0) && UP_C(s, l, 1) && UP_C(s, l, 2) && UP_C(s, l, 3) && UP_C(s, l, 4) && UP_C(s, l, 5))
#define UP_SCH_IS(s, l)                                       \
	(UP_STARTS(s, l) &&                                   \
	    ((s)[sizeof(l) - 1] == 0 ||                       \
	        (((s)[sizeof(l) - 1] == '4' || (s)[sizeof(l) - 1] == '6') && (s)[sizeof(l)] == 0)))
#define UP_DEFPORT(s)                        \
	(UP_SCH_IS(s, "git")         ? 9418  \
	        : UP_SCH_IS(s, "gopher") ? 70 \
	        : UP_SCH_IS(s, "http")   ? 80 \
	        : UP_SCH_IS(s, "https")  ? 443 \
	        : UP_SCH_IS(s, "ssh")    ? 22 \
	        : UP_SCH_IS(s, "telnet") ? 23 \
	        : UP_SCH_IS(s, "ws")     ? 80 \
	        : UP_SCH_IS(s, "ws4")    ? 80 \
	        : UP_SCH_IS(s, "ws6")    ? 80 \
	        : UP_SCH_IS(s, "wss")    ? 443 \
	        : UP_SCH_IS(s, "wss4")   ? 443 \
	        : UP_SCH_IS(s, "wss6")   ? 443 \
	                                 : 0)

/* module-local ghosts */
size_t   g_m;   /* free ghost scalar */
uint8_t  g_ob;  /* ghost byte tied to an OUTPUT buffer index by a precondition equation */

#endif
