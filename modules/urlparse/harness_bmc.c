/* Bounded whole-chain harnesses WITHOUT contract instrumentation (no_dfcc,
 * grade B): the REAL nng_url_parse -> nni_url_parse_inline_inner ->
 * nni_url_canonify_uri / url_utf8_validate / nni_url_default_port /
 * nni_get_port_by_name (real, posix_resolv_gai.c), nng_url_sprintf and
 * nng_url_free run on every input of the stated class; the C19 clauses are
 * assertions after the calls.  Input class: constant scheme text UP_PFX
 * followed by UP_N arbitrary bytes (an embedded 0 ends the string earlier, so
 * every shorter tail is covered too). */
#ifndef UP_N
#define UP_N 8
#endif
#ifndef UP_PFX
#define UP_PFX "ws://"
#endif
#define UP_PFXLEN (sizeof(UP_PFX) - 1)
char nondet_char(void);

/* getservbyname: ASSUMED to find nothing, or some entry with an arbitrary port */
#include <netdb.h>
static struct servent vp_servent;
struct servent *
getservbyname(const char *name, const char *proto)
{
	(void) name;
	(void) proto;
	if (nondet_bool()) {
		return (NULL);
	}
	vp_servent.s_port = (int) nondet_u16();
	return (&vp_servent);
}

static int
up_streq(const char *a, const char *b)
{
	if (a == NULL || b == NULL) {
		return (a == b);
	}
	return (strcmp(a, b) == 0);
}

#define UP_IS_UNRES(c) URI_UNRESERVED(c)

/* canonical-form clauses of C19 on an accepted URL */
static void
up_check_canonical(const nng_url *u)
{
	const char *h = u->u_hostname;
	const char *p = u->u_path;
	__CPROVER_assert(u->u_scheme != NULL && h != NULL && p != NULL, "accepted: scheme, host, path present");
	__CPROVER_assert(u->u_port <= 65535, "accepted: port is a 16-bit number");
	for (size_t i = 0; h[i] != 0; i++) {
		__CPROVER_assert(!(h[i] >= 'A' && h[i] <= 'Z'), "accepted: host is lower case");
		__CPROVER_assert(h[i] != '@' && h[i] != '/' && h[i] != '?' && h[i] != '#', "accepted: host has no delimiter");
		__CPROVER_assert(h[i] != '[' && h[i] != ']', "accepted: brackets of an IPv6 literal are removed");
	}
	__CPROVER_assert(p[0] == 0 || p[0] == '/', "accepted: path is empty or absolute");
	for (size_t i = 0; p[i] != 0; i++) {
		__CPROVER_assert(p[i] != '?' && p[i] != '#', "accepted: path has no query/fragment delimiter");
		if (p[i] == '/') {
			__CPROVER_assert(p[i + 1] != '/', "accepted: no duplicate slash in the path");
			if (p[i + 1] == '.') {
				__CPROVER_assert(!URI_SEG_END(p[i + 2]), "accepted: no '.' segment");
				__CPROVER_assert(!(p[i + 2] == '.' && URI_SEG_END(p[i + 3])), "accepted: no '..' segment");
			}
		}
		if (p[i] == '%') {
			__CPROVER_assert(URI_UPHEX(p[i + 1]) && URI_UPHEX(p[i + 2]), "accepted: remaining escapes are valid, upper-case hex");
			__CPROVER_assert(!UP_IS_UNRES(URI_HEXV(p[i + 1]) * 16 + URI_HEXV(p[i + 2])), "accepted: unreserved escapes are decoded");
		}
	}
	if (u->u_query != NULL) {
		for (size_t i = 0; u->u_query[i] != 0; i++) {
			__CPROVER_assert(u->u_query[i] != '#', "accepted: query has no fragment delimiter");
		}
	}
}

void
h_roundtrip(void)
{
	char     raw[UP_PFXLEN + UP_N + 1];
	char     txt[UP_PFXLEN + UP_N + 16];
	nng_url *u = NULL;
	nng_url *v = NULL;
	nng_err  rv;
	int      n;

	memcpy(raw, UP_PFX, UP_PFXLEN);
	for (size_t i = 0; i < UP_N; i++) {
		raw[UP_PFXLEN + i] = nondet_char();
	}
	raw[UP_PFXLEN + UP_N] = 0;
#ifdef UP_ASSUME_TAIL
	UP_ASSUME_TAIL(raw + UP_PFXLEN);
#endif

	rv = nng_url_parse(&u, raw);
	if (rv != NNG_OK) {
		__CPROVER_assert(u == NULL, "rejected: caller's pointer untouched");
		__CPROVER_assert(rv == NNG_EINVAL || rv == NNG_ENOMEM, "rejected: documented error code");
		VP_CANARY();
		return;
	}
	up_check_canonical(u);
	__CPROVER_assert(strcmp(u->u_scheme, UP_SCHEME) == 0, "accepted: scheme is the one spelled in the input");

	n = nng_url_sprintf(txt, sizeof(txt), u);
	__CPROVER_assert(n > 0 && (size_t) n < sizeof(txt), "sprintf: canonical text is not longer than input + port");
	__CPROVER_assert(txt[n] == 0, "sprintf: terminated at the returned length");

	rv = nng_url_parse(&v, txt);
	__CPROVER_assert(rv == NNG_OK || rv == NNG_ENOMEM, "round trip: the printed URL is accepted again");
	if (rv == NNG_OK) {
		__CPROVER_assert(v->u_scheme == u->u_scheme, "round trip: same scheme");
		__CPROVER_assert(up_streq(v->u_hostname, u->u_hostname), "round trip: same host");
		__CPROVER_assert(v->u_port == u->u_port, "round trip: same port");
		__CPROVER_assert(up_streq(v->u_path, u->u_path), "round trip: same path");
		__CPROVER_assert(up_streq(v->u_query, u->u_query), "round trip: same query");
		__CPROVER_assert(up_streq(v->u_fragment, u->u_fragment), "round trip: same fragment");
		nng_url_free(v);
	}
	nng_url_free(u);
	VP_CANARY();
}
