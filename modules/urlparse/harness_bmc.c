/* Bounded whole-chain harnesses WITHOUT contract instrumentation (no_dfcc,
 * grade B): the REAL nng_url_parse -> nni_url_parse_inline_inner ->
 * nni_url_canonify_uri / url_utf8_validate / nni_url_default_port /
 * nni_get_port_by_name (real, posix_resolv_gai.c), nng_url_sprintf and
 * nng_url_free run on every input of the stated class; the C19 clauses are
 * assertions after the calls.  Input class: constant scheme text UP_PFX
 * followed by UP_N arbitrary bytes (an embedded 0 ends the string earlier, so
 * every shorter tail is covered too). */
#ifndef UP_N
#define UP_N 8
#endif
#ifndef UP_PFX
#define UP_PFX "ws://"
#endif
#ifndef UP_SCHEME
#define UP_SCHEME "ws"
#endif
#define UP_PFXLEN (sizeof(UP_PFX) - 1)
char nondet_char(void);

/* getservbyname: ASSUMED to find nothing, or some entry with an arbitrary port */
#include <netdb.h>
static struct servent vp_servent;
size_t g_serv_calls; /* ghost: number of service-database lookups */
struct servent *
getservbyname(const char *name, const char *proto)
{
	(void) name;
	(void) proto;
	g_serv_calls++;
	if (nondet_bool()) {
		return (NULL);
	}
	vp_servent.s_port = (int) nondet_u16();
	return (&vp_servent);
}

static int
up_streq(const char *a, const char *b)
{
	if (a == NULL || b == NULL) {
		return (a == b);
	}
	return (strcmp(a, b) == 0);
}

#define UP_IS_UNRES(c) URI_UNRESERVED(c)

/* canonical-form clauses of C19 on an accepted URL */
static void
up_check_canonical(const nng_url *u)
{
	const char *h = u->u_hostname;
	const char *p = u->u_path;
	__CPROVER_assert(u->u_scheme != NULL && h != NULL && p != NULL, "accepted: scheme, host, path present");
	__CPROVER_assert(u->u_port <= 65535, "accepted: port is a 16-bit number");
	for (size_t i = 0; h[i] != 0; i++) {
		__CPROVER_assert(!(h[i] >= 'A' && h[i] <= 'Z'), "accepted: host is lower case");
		__CPROVER_assert(h[i] != '@' && h[i] != '/' && h[i] != '?' && h[i] != '#', "accepted: host has no delimiter");
		__CPROVER_assert(h[i] != '[' && h[i] != ']', "accepted: brackets of an IPv6 literal are removed");
	}
	__CPROVER_assert(p[0] == 0 || p[0] == '/', "accepted: path is empty or absolute");
	for (size_t i = 0; p[i] != 0; i++) {
		__CPROVER_assert(p[i] != '?' && p[i] != '#', "accepted: path has no query/fragment delimiter");
		if (p[i] == '/') {
			__CPROVER_assert(p[i + 1] != '/', "accepted: no duplicate slash in the path");
			if (p[i + 1] == '.') {
				__CPROVER_assert(!URI_SEG_END(p[i + 2]), "accepted: no '.' segment");
				__CPROVER_assert(!(p[i + 2] == '.' && URI_SEG_END(p[i + 3])), "accepted: no '..' segment");
			}
		}
		if (p[i] == '%') {
			__CPROVER_assert(URI_UPHEX(p[i + 1]) && URI_UPHEX(p[i + 2]), "accepted: remaining escapes are valid, upper-case hex");
			__CPROVER_assert(!UP_IS_UNRES(URI_HEXV(p[i + 1]) * 16 + URI_HEXV(p[i + 2])), "accepted: unreserved escapes are decoded");
		}
	}
	if (u->u_query != NULL) {
		for (size_t i = 0; u->u_query[i] != 0; i++) {
			__CPROVER_assert(u->u_query[i] != '#', "accepted: query has no fragment delimiter");
		}
	}
}

void
h_roundtrip(void)
{
	char     raw[UP_PFXLEN + UP_N + 1];
	char     txt[UP_PFXLEN + UP_N + 16];
	nng_url *u = NULL;
	nng_url *v = NULL;
	nng_err  rv;
	int      n;

	memcpy(raw, UP_PFX, UP_PFXLEN);
	for (size_t i = 0; i < UP_N; i++) {
		raw[UP_PFXLEN + i] = nondet_char();
	}
	raw[UP_PFXLEN + UP_N] = 0;
#ifdef UP_ASSUME_TAIL
	UP_ASSUME_TAIL(raw + UP_PFXLEN);
#endif

	rv = nng_url_parse(&u, raw);
	if (rv != NNG_OK) {
		__CPROVER_assert(u == NULL, "rejected: caller's pointer untouched");
		__CPROVER_assert(rv == NNG_EINVAL || rv == NNG_ENOMEM, "rejected: documented error code");
		VP_CANARY();
		return;
	}
	up_check_canonical(u);
	__CPROVER_assert(strcmp(u->u_scheme, UP_SCHEME) == 0, "accepted: scheme is the one spelled in the input");

	n = nng_url_sprintf(txt, sizeof(txt), u);
	__CPROVER_assert(n > 0 && (size_t) n < sizeof(txt), "sprintf: canonical text is not longer than input + port");
	__CPROVER_assert(txt[n] == 0, "sprintf: terminated at the returned length");

	rv = nng_url_parse(&v, txt);
	__CPROVER_assert(rv == NNG_OK || rv == NNG_ENOMEM, "round trip: the printed URL is accepted again");
	if (rv == NNG_OK) {
		__CPROVER_assert(v->u_scheme == u->u_scheme, "round trip: same scheme");
		__CPROVER_assert(up_streq(v->u_hostname, u->u_hostname), "round trip: same host");
		__CPROVER_assert(v->u_port == u->u_port, "round trip: same port");
		__CPROVER_assert(up_streq(v->u_path, u->u_path), "round trip: same path");
		__CPROVER_assert(up_streq(v->u_query, u->u_query), "round trip: same query");
		__CPROVER_assert(up_streq(v->u_fragment, u->u_fragment), "round trip: same fragment");
		nng_url_free(v);
	}
	nng_url_free(u);
	VP_CANARY();
}

/* ---- nni_url_canonify_uri: normal form + idempotence (2-call lemma) --------
 * Input: every string of at most UP_CN bytes (array of UP_CN arbitrary bytes +
 * terminator; an embedded 0 gives the shorter strings).  The array has no
 * slack: a write past the input length is out of bounds. */
#ifndef UP_CN
#define UP_CN 8
#endif
void
h_canon_idem(void)
{
	char   a[UP_CN + 1];
	char   b[UP_CN + 1];
	size_t n0, n1;
	nng_err rv;

	for (size_t i = 0; i < UP_CN; i++) {
		a[i] = nondet_char();
	}
	a[UP_CN] = 0;
	n0 = strlen(a);
	rv = nni_url_canonify_uri(a);
	__CPROVER_assert(rv == NNG_OK || rv == NNG_EINVAL, "canonify: result code");
	/* in place, terminated, never longer than the input */
	n1 = 0;
	while (n1 < UP_CN && a[n1] != 0) {
		n1++;
	}
	__CPROVER_assert(a[n1] == 0 && n1 <= n0, "canonify: output terminated and not longer than the input");
	if (rv != NNG_OK) {
		VP_CANARY();
		return;
	}
	/* normal form (RFC 3986 6.2.2): escapes, segments */
	{
		bool inpath = true;
		for (size_t i = 0; i < n1; i++) {
			if (a[i] == '?' || a[i] == '#') {
				inpath = false;
			}
			if (a[i] == '%') {
				__CPROVER_assert(i + 2 < n1 && URI_UPHEX(a[i + 1]) && URI_UPHEX(a[i + 2]), "canonify: remaining escapes are complete, upper-case hex");
				__CPROVER_assert(!URI_UNRESERVED(URI_HEXV(a[i + 1]) * 16 + URI_HEXV(a[i + 2])), "canonify: escapes of unreserved characters are decoded");
				__CPROVER_assert((URI_HEXV(a[i + 1]) * 16 + URI_HEXV(a[i + 2])) < 0x80, "canonify: escaped UTF-8 bytes are decoded (and validated)");
			}
			if (inpath && a[i] == '/') {
				__CPROVER_assert(a[i + 1] != '/', "canonify: no duplicate slash in the path");
				if (a[i + 1] == '.') {
					__CPROVER_assert(!URI_SEG_END(a[i + 2]), "canonify: no '.' segment in the path");
					__CPROVER_assert(!(a[i + 2] == '.' && URI_SEG_END(a[i + 3])), "canonify: no '..' segment in the path");
				}
			}
		}
	}
	/* idempotence */
	memcpy(b, a, sizeof(a));
	rv = nni_url_canonify_uri(b);
	__CPROVER_assert(rv == NNG_OK, "idempotence: canonical text is accepted again");
	for (size_t i = 0; i <= UP_CN; i++) {
		__CPROVER_assert(i > n1 || b[i] == a[i], "idempotence: canonify(canonify(x)) == canonify(x)");
	}
	VP_CANARY();
}

/* ---- nni_get_port_by_name (REAL, posix_resolv_gai.c): the port text of a URL
 * Input: every non-empty string of at most UP_PN bytes (url.c rejects the
 * empty port itself).  A port is accepted without a service-database lookup
 * only if it is a plain decimal number (digits only: no sign, no white space;
 * RFC 3986 port = *DIGIT) of value <= 65535, and then the stored port is that
 * value; every such number is accepted; nothing above 65535 is ever stored. */
#ifndef UP_PN
#define UP_PN 7
#endif
void
h_port(void)
{
	char     name[UP_PN + 1];
	uint32_t port = nondet_u32();
	int      rv;
	bool     digits = true;
	uint64_t val    = 0;

	for (size_t i = 0; i < UP_PN; i++) {
		name[i] = nondet_char();
	}
	name[UP_PN] = 0;
	__CPROVER_assume(name[0] != 0);
	g_serv_calls = 0;
	for (size_t i = 0; i < UP_PN && name[i] != 0; i++) {
		if (name[i] < '0' || name[i] > '9') {
			digits = false;
		} else {
			val = val * 10 + (uint64_t) (name[i] - '0');
		}
	}
	rv = nni_get_port_by_name(name, &port);
	__CPROVER_assert(rv == 0 || rv == NNG_EADDRINVAL, "port: result code");
	__CPROVER_assert(rv != 0 || port <= 65535, "port: accepted => 16-bit value");
	__CPROVER_assert(!(rv == 0 && g_serv_calls == 0) || digits, "port: a numeric port is decimal digits only (no sign, no white space)");
	__CPROVER_assert(!(rv == 0 && g_serv_calls == 0) || port == val, "port: numeric port has its decimal value (no overflow)");
	__CPROVER_assert(!(digits && val <= 65535) || (rv == 0 && port == val && g_serv_calls == 0), "port: every decimal number <= 65535 is accepted as itself");
	VP_CANARY();
}

/* ---- one parse: acceptance => canonical components; ownership ------------ */
void
h_parse_canon(void)
{
	char     raw[UP_PFXLEN + UP_N + 1];
	nng_url *u = NULL;
	nng_err  rv;

	memcpy(raw, UP_PFX, UP_PFXLEN);
	for (size_t i = 0; i < UP_N; i++) {
		raw[UP_PFXLEN + i] = nondet_char();
	}
	raw[UP_PFXLEN + UP_N] = 0;
	rv = nng_url_parse(&u, raw);
	if (rv != NNG_OK) {
		__CPROVER_assert(u == NULL, "rejected: caller's pointer untouched");
		__CPROVER_assert(rv == NNG_EINVAL || rv == NNG_ENOMEM, "rejected: documented error code");
		VP_CANARY();
		return;
	}
	up_check_canonical(u);
	__CPROVER_assert(strcmp(u->u_scheme, UP_SCHEME) == 0, "accepted: scheme is the one spelled in the input");
	__CPROVER_assert(u->u_bufsz == 0 && u->u_buffer == u->u_static, "accepted: short URL lives in the inline buffer");
	nng_url_free(u);
	VP_CANARY();
}

/* ---- nng_url_sprintf / nni_url_asprintf: the printed text -----------------
 * URL built by the harness: scheme = the constant UP_SCHEME, host <= 4, path
 * <= 3, query and fragment absent or <= 2 arbitrary bytes, any 16-bit port.
 * Expected text (C19 / RFC 3986 3): scheme "://" host (in brackets iff it
 * contains ':') [":" decimal port unless it is the scheme's non-zero default
 * port] path ["?" query] ["#" fragment]; host-less schemes (ipc, unix, ...)
 * print scheme "://" path.  The expected text is assembled independently
 * (up_app), the default port comes from the specification table UP_DEFPORT. */
#define UP_SH 4
#define UP_SP 3
#define UP_SQ 2
static size_t
up_app(char *dst, size_t at, const char *s)
{
	for (size_t i = 0; s[i] != 0; i++) {
		dst[at++] = s[i];
	}
	dst[at] = 0;
	return (at);
}
static void
up_fill(char *s, size_t n)
{
	for (size_t i = 0; i < n; i++) {
		s[i] = nondet_char();
	}
	s[n] = 0;
}
void
h_sprintf(void)
{
	nng_url  u;
	char     host[UP_SH + 1], path[UP_SP + 1], q[UP_SQ + 1], f[UP_SQ + 1];
	char     exp[48], txt[48], dec[8];
	char    *as = NULL;
	size_t   e  = 0;
	int      n, n0;
	bool     colon = false, hostless;
	uint16_t port  = nondet_u16();
	nng_err  rv;

	memset(&u, 0, sizeof(u));
	up_fill(host, UP_SH);
	up_fill(path, UP_SP);
	up_fill(q, UP_SQ);
	up_fill(f, UP_SQ);
	u.u_scheme   = UP_SCHEME;
	u.u_hostname = host;
	u.u_path     = path;
	u.u_port     = port;
	u.u_query    = nondet_bool() ? q : NULL;
	u.u_fragment = nondet_bool() ? f : NULL;
	hostless     = (strcmp(UP_SCHEME, "ipc") == 0 || strcmp(UP_SCHEME, "inproc") == 0 || strcmp(UP_SCHEME, "unix") == 0 ||
            strcmp(UP_SCHEME, "abstract") == 0 || strcmp(UP_SCHEME, "socket") == 0);
	if (hostless) {
		u.u_hostname = NULL;
	}
	for (size_t i = 0; host[i] != 0; i++) {
		if (host[i] == ':') {
			colon = true;
		}
	}
	/* expected text */
	e = up_app(exp, e, UP_SCHEME);
	e = up_app(exp, e, "://");
	if (!hostless) {
		if (colon) {
			e = up_app(exp, e, "[");
		}
		e = up_app(exp, e, host);
		if (colon) {
			e = up_app(exp, e, "]");
		}
		if (!(port != 0 && port == UP_DEFPORT(UP_SCHEME))) {
			size_t   d = 0;
			uint16_t v = port;
			char     r[6];
			do {
				r[d++] = (char) ('0' + v % 10);
				v /= 10;
			} while (v != 0);
			dec[0] = ':';
			for (size_t i = 0; i < d; i++) {
				dec[1 + i] = r[d - 1 - i];
			}
			dec[1 + d] = 0;
			e          = up_app(exp, e, dec);
		}
	}
	e = up_app(exp, e, path);
	if (!hostless && u.u_query != NULL) {
		e = up_app(exp, e, "?");
		e = up_app(exp, e, q);
	}
	if (!hostless && u.u_fragment != NULL) {
		e = up_app(exp, e, "#");
		e = up_app(exp, e, f);
	}

	n0 = nng_url_sprintf(NULL, 0, &u);
	n  = nng_url_sprintf(txt, sizeof(txt), &u);
	__CPROVER_assert(n == n0 && (size_t) n == e, "sprintf: returns the length of the expected text, also for a NULL buffer");
	for (size_t i = 0; i <= e; i++) {
		__CPROVER_assert(txt[i] == exp[i], "sprintf: text is scheme://[host]:port path ?query #fragment (IPv6 bracketed, default port omitted)");
	}
#ifdef UP_WITH_ASPRINTF
	rv = nni_url_asprintf(&as, &u);
	__CPROVER_assert(rv == NNG_OK || rv == NNG_ENOMEM, "asprintf: result code");
	if (rv == NNG_OK) {
		__CPROVER_assert(__CPROVER_OBJECT_SIZE(as) == e + 1, "asprintf: block is exactly text + terminator (nni_strfree frees strlen+1)");
		for (size_t i = 0; i <= e; i++) {
			__CPROVER_assert(as[i] == exp[i], "asprintf: same text");
		}
		nni_free(as, e + 1);
	} else {
		__CPROVER_assert(as == NULL, "asprintf: on failure the caller's pointer is untouched and nothing is allocated");
	}
#endif
	VP_CANARY();
}
