/* Expire-loop units only (-DTQ_WITH_AIO): the REAL src/core/aio.c joins the TU (found through
 * -I$VP_REPO/src, so seeded runs see the scratch tree), next to the real list.c and taskq.c listed
 * under "sources".  It is kept out of the other units because its void(void*) functions
 * (nni_aio_free_cb, nni_aio_expire_loop) would become candidates of every task_cb(arg) call. */
#ifdef TQ_WITH_AIO
#include "core/aio.c"
#endif
