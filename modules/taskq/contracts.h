/* Contracts for src/core/taskq.c (redeclarations after the definitions).
 *
 * Served property: C02 "every asynchronous operation completes exactly once ... once nng_aio_stop or
 * nng_aio_free has returned no callback for that aio is running or will ever run".  The taskq layer's
 * share of it:
 *   - task_busy counts the promised-but-unfinished executions exactly: +1 per prep, +1 per
 *     dispatch/exec of an unprepared task, -1 per finished execution;
 *   - exec / the worker run the callback exactly once per dispatch, with every lock released and
 *     while the task is still counted busy; waiters are woken exactly when the count reaches 0;
 *   - a dispatched task is linked at the tail of the queue exactly once (FIFO), nothing else moves;
 *   - nni_task_wait / nni_task_fini return only with task_busy == 0.
 * Sequential contracts: thread interleavings are NOT explored.
 * These contracts are only ever ENFORCED in this module (pointer facts in ensures are plain ==). */
#ifndef VP_TASKQ_CONTRACTS_H
#define VP_TASKQ_CONTRACTS_H
/* clang-format off */
#define RV __CPROVER_return_value
#define OLD(e) __CPROVER_old(e)
/* reachability probes (only with -DTASKQ_COVER, never in a registered unit): each must FAIL */
#ifdef TASKQ_COVER
#define COVER(c) __CPROVER_ensures(!(c))
#else
#define COVER(c)
#endif

/* ---- nni_task_init ------------------------------------------------------- */
void nni_task_init(nni_task *task, nni_taskq *tq, nni_cb cb, void *arg)
__CPROVER_requires(__CPROVER_is_fresh(task, sizeof(nni_task)))
__CPROVER_assigns(*task)
/* idle: not queued, nothing outstanding, not prepared */
__CPROVER_ensures(TASK_OFFQ(task) && task->task_busy == 0 && !task->task_prep)
__CPROVER_ensures(task->task_cb == cb && task->task_arg == arg)
__CPROVER_ensures(task->task_tq == (tq != NULL ? tq : nni_taskq_systq))
/* the task's cv is bound to the task's own mutex */
__CPROVER_ensures(task->task_cv.mtx == &task->task_mtx.mtx)
COVER(tq == NULL) COVER(tq != NULL && cb != NULL)
;

/* ---- nni_task_prep ------------------------------------------------------- */
void nni_task_prep(nni_task *task)
__CPROVER_requires(TASK_PRE(task))
/* one prep per operation (the aio layer: nni_aio_start on an idle aio) */
__CPROVER_requires(!task->task_prep)
__CPROVER_assigns(task->task_busy, task->task_prep, VP_SYNC_GHOSTS)
__CPROVER_ensures(task->task_busy == OLD(task->task_busy) + 1 && task->task_prep)
__CPROVER_ensures(VP_NO_LOCK_HELD && g_lock_ops == OLD(g_lock_ops) + 2)
COVER(OLD(task->task_busy) == 3)
;

/* ---- nni_task_busy ------------------------------------------------------- */
bool nni_task_busy(nni_task *task)
__CPROVER_requires(TASK_PRE(task))
__CPROVER_assigns(VP_SYNC_GHOSTS)
__CPROVER_ensures(RV == (task->task_busy != 0))
__CPROVER_ensures(VP_NO_LOCK_HELD && g_lock_ops == OLD(g_lock_ops) + 2)
COVER(RV) COVER(!RV) COVER(task->task_busy == 256)
;

/* ---- nni_task_exec ------------------------------------------------------- */
#define EXEC_DEC (OLD(task->task_prep) ? 1u : 0u)
void nni_task_exec(nni_task *task)
__CPROVER_requires(TASK_PRE(task) && TASK_TQ_PRE(task) && TASK_INV(task))
__CPROVER_requires(task->task_cb == NULL || task->task_cb == vp_cb)
__CPROVER_requires(!g_cb_arg_is_task && g_cb_mode >= 0 && g_cb_mode <= 2)
__CPROVER_requires(task->task_busy <= TASK_BUSY_MAX)
/* a callback that re-dispatches needs its task off the queue (else nni_list_append panics) */
__CPROVER_requires((task->task_cb != NULL && g_cb_mode == 1) ==> TASK_OFFQ(task))
__CPROVER_assigns(task->task_busy, task->task_prep, TASK_CB_GHOSTS, g_cb_seq, TASK_WAKE_GHOSTS, VP_SYNC_GHOSTS)
__CPROVER_assigns(task->task_cb != NULL && g_cb_mode == 1: task->task_node, TQ_HEAD(task->task_tq).ln_prev, TQ_HEAD(task->task_tq).ln_prev->ln_next)
__CPROVER_ensures(VP_NO_LOCK_HELD)
/* the callback runs synchronously, exactly once, with the task's argument (vp_cb asserts: no lock held,
 * task counted busy) */
__CPROVER_ensures(task->task_cb != NULL ==> (g_cb_calls == OLD(g_cb_calls) + 1 && g_cb_arg == task->task_arg))
__CPROVER_ensures(task->task_cb == NULL ==> g_cb_calls == OLD(g_cb_calls))
/* while it ran the count was: old + 1 for an unprepared task, old for a prepared one */
__CPROVER_ensures(task->task_cb != NULL ==> g_cb_busy == OLD(task->task_busy) + 1u - EXEC_DEC)
/* exact counting: a prepared task is not counted twice; this execution is taken off again */
__CPROVER_ensures((task->task_cb == NULL || g_cb_mode == 0) ==> (task->task_busy == OLD(task->task_busy) - EXEC_DEC && !task->task_prep))
__CPROVER_ensures((task->task_cb != NULL && g_cb_mode == 1) ==> (task->task_busy == OLD(task->task_busy) - EXEC_DEC + 1u && !task->task_prep))
__CPROVER_ensures((task->task_cb != NULL && g_cb_mode == 2) ==> (task->task_busy == OLD(task->task_busy) - EXEC_DEC + 1u && task->task_prep))
/* waiters are woken exactly when nothing is outstanding any more */
__CPROVER_ensures(g_wk_task0 == OLD(g_wk_task0) + (task->task_busy == 0 ? 1u : 0u))
/* re-submission from the callback: queued once, at the tail, worker woken once */
__CPROVER_ensures((task->task_cb != NULL && g_cb_mode == 1) ==> (TASK_APPENDED(task, OLD(TQ_HEAD(task->task_tq).ln_prev)) && g_wk_sched == OLD(g_wk_sched) + 1))
__CPROVER_ensures(!(task->task_cb != NULL && g_cb_mode == 1) ==> g_wk_sched == OLD(g_wk_sched))
__CPROVER_ensures(TASK_INV(task))
COVER(task->task_cb != NULL && g_cb_mode == 0 && OLD(task->task_prep) && task->task_busy == 0)
COVER(task->task_cb != NULL && g_cb_mode == 0 && !OLD(task->task_prep) && task->task_busy == 2)
COVER(task->task_cb != NULL && g_cb_mode == 1 && OLD(task->task_prep) && task->task_busy == 1 && OLD(TQ_HEAD(task->task_tq).ln_prev) != &TQ_HEAD(task->task_tq))
COVER(task->task_cb != NULL && g_cb_mode == 1 && OLD(TQ_HEAD(task->task_tq).ln_prev) == &TQ_HEAD(task->task_tq))
COVER(task->task_cb != NULL && g_cb_mode == 2 && OLD(task->task_prep))
COVER(task->task_cb == NULL && OLD(task->task_prep) && task->task_busy == 0)
;

/* ---- nni_task_dispatch --------------------------------------------------- */
void nni_task_dispatch(nni_task *task)
__CPROVER_requires(TASK_PRE(task) && TASK_TQ_PRE(task) && TASK_INV(task))
__CPROVER_requires(task->task_cb == NULL || task->task_cb == vp_cb)
__CPROVER_requires(task->task_busy <= TASK_BUSY_MAX)
/* a task is on the queue at most once: the caller may dispatch it again only after the worker has
 * taken it off (nni_list_append panics otherwise) */
__CPROVER_requires(task->task_cb != NULL ==> TASK_OFFQ(task))
__CPROVER_assigns(task->task_busy, task->task_prep, TASK_WAKE_GHOSTS, VP_SYNC_GHOSTS)
__CPROVER_assigns(task->task_cb != NULL: task->task_node, TQ_HEAD(task->task_tq).ln_prev, TQ_HEAD(task->task_tq).ln_prev->ln_next)
__CPROVER_ensures(VP_NO_LOCK_HELD)
/* never runs the callback in the caller's context */
__CPROVER_ensures(g_cb_calls == OLD(g_cb_calls))
__CPROVER_ensures(!task->task_prep)
/* no callback: completes synchronously -- the count is back where it was (minus the prep), waiters
 * woken if that was the last one, nothing queued, no worker woken */
__CPROVER_ensures(task->task_cb == NULL ==> (task->task_busy == OLD(task->task_busy) - EXEC_DEC &&
        g_wk_task0 == OLD(g_wk_task0) + (task->task_busy == 0 ? 1u : 0u) && g_wk_sched == OLD(g_wk_sched)))
/* callback: counted once (not again if prepared), linked at the tail exactly once, one worker woken,
 * task waiters not woken */
__CPROVER_ensures(task->task_cb != NULL ==> (task->task_busy == OLD(task->task_busy) + 1u - EXEC_DEC && task->task_busy >= 1 &&
        g_wk_task0 == OLD(g_wk_task0) && g_wk_sched == OLD(g_wk_sched) + 1 && g_wk_sched_all == OLD(g_wk_sched_all)))
__CPROVER_ensures(task->task_cb != NULL ==> TASK_APPENDED(task, OLD(TQ_HEAD(task->task_tq).ln_prev)))
COVER(task->task_cb == NULL && !OLD(task->task_prep) && task->task_busy == 0)
COVER(task->task_cb == NULL && OLD(task->task_prep) && task->task_busy == 1)
COVER(task->task_cb != NULL && OLD(task->task_prep) && OLD(TQ_HEAD(task->task_tq).ln_prev) == &TQ_HEAD(task->task_tq))
COVER(task->task_cb != NULL && !OLD(task->task_prep) && OLD(TQ_HEAD(task->task_tq).ln_prev) != &TQ_HEAD(task->task_tq))
;

/* ---- nni_task_wait / nni_task_fini ---------------------------------------- */
void nni_task_wait(nni_task *task)
__CPROVER_requires(TASK_PRE(task) && !g_cv_waited)
__CPROVER_assigns(task->task_busy, g_cv_waited, VP_SYNC_GHOSTS)
/* returns only when nothing is outstanding; does not sleep when nothing was */
__CPROVER_ensures(task->task_busy == 0 && VP_NO_LOCK_HELD)
__CPROVER_ensures(OLD(task->task_busy) == 0 ==> (!g_cv_waited && g_lock_ops == OLD(g_lock_ops) + 2))
__CPROVER_ensures(OLD(task->task_busy) != 0 ==> g_cv_waited)
COVER(OLD(task->task_busy) == 0) COVER(OLD(task->task_busy) == 2)
;

void nni_task_fini(nni_task *task)
__CPROVER_requires(TASK_PRE(task) && !g_cv_waited)
__CPROVER_assigns(task->task_busy, g_cv_waited, g_cv_fini, g_mtx_fini, VP_SYNC_GHOSTS)
/* the task is torn down only when nothing is outstanding, with its lock free */
__CPROVER_ensures(task->task_busy == 0 && VP_NO_LOCK_HELD)
__CPROVER_ensures(g_cv_fini == OLD(g_cv_fini) + 1 && g_mtx_fini == OLD(g_mtx_fini) + 1)
__CPROVER_ensures(OLD(task->task_busy) == 0 ==> !g_cv_waited)
__CPROVER_ensures(OLD(task->task_busy) != 0 ==> g_cv_waited)
COVER(OLD(task->task_busy) == 0) COVER(OLD(task->task_busy) == 2)
;

/* ---- nni_taskq_thread: the worker (grade B: at most 2 queued tasks, skeleton built by the harness
 * from real objects with the real list code; thread exit modelled by the cv-wait stub) ------------
 * g_nq tasks g_t0 [, g_t1] are queued in that order; every queued task was counted by its dispatch
 * (busy >= 1).  Callback model: vp_cb (asserts: no lock held, task off the queue, task counted
 * busy, own argument); with g_cb_mode == 1 the FIRST run of g_t0's callback re-dispatches g_t0. */
#define TQ_EMPTY(tq) (TQ_HEAD(tq).ln_next == &TQ_HEAD(tq) && TQ_HEAD(tq).ln_prev == &TQ_HEAD(tq))
#define TQ_IS1(tq, a) (TQ_HEAD(tq).ln_next == &(a)->task_node && (a)->task_node.ln_next == &TQ_HEAD(tq) && \
	    TQ_HEAD(tq).ln_prev == &(a)->task_node && (a)->task_node.ln_prev == &TQ_HEAD(tq))
#define TQ_IS2(tq, a, b) (TQ_HEAD(tq).ln_next == &(a)->task_node && (a)->task_node.ln_next == &(b)->task_node && \
	    (b)->task_node.ln_next == &TQ_HEAD(tq) && TQ_HEAD(tq).ln_prev == &(b)->task_node && \
	    (b)->task_node.ln_prev == &(a)->task_node && (a)->task_node.ln_prev == &TQ_HEAD(tq))
#define WK_REDO (g_cb_mode == 1 && g_nq > 0)
#define WK_RUNS (g_nq + (WK_REDO ? 1u : 0u))
static void nni_taskq_thread(void *self)
__CPROVER_requires(self == (void *) g_thr && g_thr->tqt_tq == g_tq && VP_LOCKS_CLEAR && g_worker_unit && g_cb_arg_is_task)
__CPROVER_requires(g_nq <= 2 && (g_cb_mode == 0 || g_cb_mode == 1) && !g_cb_redo_done && !g_cv_waited && g_cb_base == g_cb_calls)
__CPROVER_requires(g_nq == 0 ? TQ_EMPTY(g_tq) : (g_nq == 1 ? TQ_IS1(g_tq, g_t0) : TQ_IS2(g_tq, g_t0, g_t1)))
__CPROVER_requires(g_nq < 2 ==> TASK_OFFQ(g_t1))
__CPROVER_requires(g_nq < 1 ==> TASK_OFFQ(g_t0))
__CPROVER_requires(g_t0->task_cb == vp_cb && g_t1->task_cb == vp_cb && g_t0->task_arg == g_t0 && g_t1->task_arg == g_t1)
__CPROVER_requires(g_t0->task_tq == g_tq && g_t1->task_tq == g_tq)
/* representation invariant of the counter: one for the queue entry (counted by the dispatch that queued it)
 * plus one if the task has been prepared again since */
__CPROVER_requires((g_nq >= 1 ==> (g_t0->task_busy >= 1u + (g_t0->task_prep ? 1u : 0u) && g_t0->task_busy <= TASK_BUSY_MAX)) && (g_nq >= 2 ==> g_t1->task_busy >= 1u + (g_t1->task_prep ? 1u : 0u)))
__CPROVER_assigns(TQ_HEAD(g_tq), g_tq->tq_run, g_t0->task_node, g_t1->task_node, g_t0->task_busy, g_t1->task_busy, g_t0->task_prep)
__CPROVER_assigns(TASK_CB_GHOSTS, g_cb_seq, g_cb_redo_done, g_wk_task0, g_wk_task1, g_wk_sched, g_wk_drain, g_cv_waited, VP_SYNC_GHOSTS)
/* returns with every lock released, the queue empty, the thread told to stop */
__CPROVER_ensures(VP_NO_LOCK_HELD && TQ_EMPTY(g_tq) && TASK_OFFQ(g_t0) && TASK_OFFQ(g_t1) && !g_tq->tq_run)
/* every queued entry was run exactly once, FIRST one first (FIFO), a re-dispatched task behind the rest */
__CPROVER_ensures(g_cb_calls == OLD(g_cb_calls) + WK_RUNS)
__CPROVER_ensures(g_nq >= 1 ==> g_cb_seq[0] == g_t0)
__CPROVER_ensures(g_nq == 2 ==> g_cb_seq[1] == g_t1)
__CPROVER_ensures(WK_REDO ==> g_cb_seq[g_nq] == g_t0)
/* each run takes its task's count down by exactly one; the re-dispatch from the callback adds one unless it
 * consumes a prep (which was counted already) */
__CPROVER_ensures((g_nq >= 1 && !WK_REDO) ==> (g_t0->task_busy == OLD(g_t0->task_busy) - 1u && g_t0->task_prep == OLD(g_t0->task_prep)))
__CPROVER_ensures(WK_REDO ==> (g_t0->task_busy == OLD(g_t0->task_busy) - 1u - (OLD(g_t0->task_prep) ? 1u : 0u) && !g_t0->task_prep))
__CPROVER_ensures(g_nq == 2 ==> g_t1->task_busy == OLD(g_t1->task_busy) - 1u)
__CPROVER_ensures(g_nq < 1 ==> g_t0->task_busy == OLD(g_t0->task_busy))
__CPROVER_ensures(g_nq < 2 ==> g_t1->task_busy == OLD(g_t1->task_busy))
__CPROVER_ensures(g_nq < 1 ==> g_t0->task_prep == OLD(g_t0->task_prep))
/* task waiters are woken exactly when the count reaches zero */
__CPROVER_ensures(g_wk_task0 == OLD(g_wk_task0) + ((g_nq >= 1 && g_t0->task_busy == 0) ? 1u : 0u))
__CPROVER_ensures(g_wk_task1 == OLD(g_wk_task1) + ((g_nq == 2 && g_t1->task_busy == 0) ? 1u : 0u))
/* drain waiters are woken every time the queue is found empty; the thread sleeps only on an empty queue while running */
__CPROVER_ensures(g_wk_drain == OLD(g_wk_drain) + (OLD(g_tq->tq_run) ? 2u : 1u) && g_cv_waited == OLD(g_tq->tq_run))
__CPROVER_ensures(g_wk_sched == OLD(g_wk_sched) + (WK_REDO ? 1u : 0u))
COVER(g_nq == 2 && g_cb_mode == 1 && OLD(g_tq->tq_run) && g_t0->task_busy == 0 && g_t1->task_busy == 3)
COVER(g_nq == 0 && !OLD(g_tq->tq_run))
COVER(g_nq == 1 && g_cb_mode == 0 && g_t0->task_busy == 0)
;
/* clang-format on */
#endif
