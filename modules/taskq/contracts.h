/* Contracts for src/core/taskq.c (redeclarations after the definitions).
 *
 * Served property: C02 "every asynchronous operation completes exactly once ... once nng_aio_stop or
 * nng_aio_free has returned no callback for that aio is running or will ever run".  The taskq layer's
 * share of it:
 *   - task_busy counts the promised-but-unfinished executions exactly: +1 per prep, +1 per
 *     dispatch/exec of an unprepared task, -1 per finished execution;
 *   - exec / the worker run the callback exactly once per dispatch, with every lock released and
 *     while the task is still counted busy; waiters are woken exactly when the count reaches 0;
 *   - a dispatched task is linked at the tail of the queue exactly once (FIFO), nothing else moves;
 *   - nni_task_wait / nni_task_fini return only with task_busy == 0.
 * Sequential contracts: thread interleavings are NOT explored.
 * These contracts are only ever ENFORCED in this module (pointer facts in ensures are plain ==). */
#ifndef VP_TASKQ_CONTRACTS_H
#define VP_TASKQ_CONTRACTS_H
/* clang-format off */
#define RV __CPROVER_return_value
#define OLD(e) __CPROVER_old(e)
/* reachability probes (only with -DTASKQ_COVER, never in a registered unit): each must FAIL */
#ifdef TASKQ_COVER
#define COVER(c) __CPROVER_ensures(!(c))
#else
#define COVER(c)
#endif

/* ---- nni_task_init ------------------------------------------------------- */
void nni_task_init(nni_task *task, nni_taskq *tq, nni_cb cb, void *arg)
__CPROVER_requires(__CPROVER_is_fresh(task, sizeof(nni_task)))
__CPROVER_assigns(*task)
/* idle: not queued, nothing outstanding, not prepared */
__CPROVER_ensures(TASK_OFFQ(task) && task->task_busy == 0 && !task->task_prep)
__CPROVER_ensures(task->task_cb == cb && task->task_arg == arg)
__CPROVER_ensures(task->task_tq == (tq != NULL ? tq : nni_taskq_systq))
/* the task's cv is bound to the task's own mutex */
__CPROVER_ensures(task->task_cv.mtx == &task->task_mtx.mtx)
COVER(tq == NULL) COVER(tq != NULL && cb != NULL)
;

/* ---- nni_task_prep ------------------------------------------------------- */
void nni_task_prep(nni_task *task)
__CPROVER_requires(TASK_PRE(task))
/* one prep per operation (the aio layer: nni_aio_start on an idle aio) */
__CPROVER_requires(!task->task_prep)
__CPROVER_assigns(task->task_busy, task->task_prep, VP_SYNC_GHOSTS)
__CPROVER_ensures(task->task_busy == OLD(task->task_busy) + 1 && task->task_prep)
__CPROVER_ensures(VP_NO_LOCK_HELD && g_lock_ops == OLD(g_lock_ops) + 2)
COVER(OLD(task->task_busy) == 3)
;

/* ---- nni_task_busy ------------------------------------------------------- */
bool nni_task_busy(nni_task *task)
__CPROVER_requires(TASK_PRE(task))
__CPROVER_assigns(VP_SYNC_GHOSTS)
__CPROVER_ensures(RV == (task->task_busy != 0))
__CPROVER_ensures(VP_NO_LOCK_HELD && g_lock_ops == OLD(g_lock_ops) + 2)
COVER(RV) COVER(!RV) COVER(task->task_busy == 256)
;

/* ---- nni_task_exec ------------------------------------------------------- */
#define EXEC_DEC (OLD(task->task_prep) ? 1u : 0u)
void nni_task_exec(nni_task *task)
__CPROVER_requires(TASK_PRE(task) && TASK_TQ_PRE(task) && TASK_INV(task))
__CPROVER_requires(task->task_cb == NULL || task->task_cb == vp_cb)
__CPROVER_requires(!g_cb_arg_is_task && g_cb_mode >= 0 && g_cb_mode <= 2)
__CPROVER_requires(task->task_busy <= TASK_BUSY_MAX)
/* a callback that re-dispatches needs its task off the queue (else nni_list_append panics) */
__CPROVER_requires((task->task_cb != NULL && g_cb_mode == 1) ==> TASK_OFFQ(task))
__CPROVER_assigns(task->task_busy, task->task_prep, TASK_CB_GHOSTS, g_cb_seq, TASK_WAKE_GHOSTS, VP_SYNC_GHOSTS)
__CPROVER_assigns(task->task_cb != NULL && g_cb_mode == 1: task->task_node, TQ_HEAD(task->task_tq).ln_prev, TQ_HEAD(task->task_tq).ln_prev->ln_next)
__CPROVER_ensures(VP_NO_LOCK_HELD)
/* the callback runs synchronously, exactly once, with the task's argument (vp_cb asserts: no lock held,
 * task counted busy) */
__CPROVER_ensures(task->task_cb != NULL ==> (g_cb_calls == OLD(g_cb_calls) + 1 && g_cb_arg == task->task_arg))
__CPROVER_ensures(task->task_cb == NULL ==> g_cb_calls == OLD(g_cb_calls))
/* while it ran the count was: old + 1 for an unprepared task, old for a prepared one */
__CPROVER_ensures(task->task_cb != NULL ==> g_cb_busy == OLD(task->task_busy) + 1u - EXEC_DEC)
/* exact counting: a prepared task is not counted twice; this execution is taken off again */
__CPROVER_ensures((task->task_cb == NULL || g_cb_mode == 0) ==> (task->task_busy == OLD(task->task_busy) - EXEC_DEC && !task->task_prep))
__CPROVER_ensures((task->task_cb != NULL && g_cb_mode == 1) ==> (task->task_busy == OLD(task->task_busy) - EXEC_DEC + 1u && !task->task_prep))
__CPROVER_ensures((task->task_cb != NULL && g_cb_mode == 2) ==> (task->task_busy == OLD(task->task_busy) - EXEC_DEC + 1u && task->task_prep))
/* waiters are woken exactly when nothing is outstanding any more */
__CPROVER_ensures(g_wk_task0 == OLD(g_wk_task0) + (task->task_busy == 0 ? 1u : 0u))
/* re-submission from the callback: queued once, at the tail, worker woken once */
__CPROVER_ensures((task->task_cb != NULL && g_cb_mode == 1) ==> (TASK_APPENDED(task, OLD(TQ_HEAD(task->task_tq).ln_prev)) && g_wk_sched == OLD(g_wk_sched) + 1))
__CPROVER_ensures(!(task->task_cb != NULL && g_cb_mode == 1) ==> g_wk_sched == OLD(g_wk_sched))
__CPROVER_ensures(TASK_INV(task))
COVER(task->task_cb != NULL && g_cb_mode == 0 && OLD(task->task_prep) && task->task_busy == 0)
COVER(task->task_cb != NULL && g_cb_mode == 0 && !OLD(task->task_prep) && task->task_busy == 2)
COVER(task->task_cb != NULL && g_cb_mode == 1 && OLD(task->task_prep) && task->task_busy == 1 && OLD(TQ_HEAD(task->task_tq).ln_prev) != &TQ_HEAD(task->task_tq))
COVER(task->task_cb != NULL && g_cb_mode == 1 && OLD(TQ_HEAD(task->task_tq).ln_prev) == &TQ_HEAD(task->task_tq))
COVER(task->task_cb != NULL && g_cb_mode == 2 && OLD(task->task_prep))
COVER(task->task_cb == NULL && OLD(task->task_prep) && task->task_busy == 0)
;

/* ---- nni_task_dispatch --------------------------------------------------- */
void nni_task_dispatch(nni_task *task)
__CPROVER_requires(TASK_PRE(task) && TASK_TQ_PRE(task) && TASK_INV(task))
__CPROVER_requires(task->task_cb == NULL || task->task_cb == vp_cb)
__CPROVER_requires(task->task_busy <= TASK_BUSY_MAX)
/* a task is on the queue at most once: the caller may dispatch it again only after the worker has
 * taken it off (nni_list_append panics otherwise) */
__CPROVER_requires(task->task_cb != NULL ==> TASK_OFFQ(task))
__CPROVER_assigns(task->task_busy, task->task_prep, TASK_WAKE_GHOSTS, VP_SYNC_GHOSTS)
__CPROVER_assigns(task->task_cb != NULL: task->task_node, TQ_HEAD(task->task_tq).ln_prev, TQ_HEAD(task->task_tq).ln_prev->ln_next)
__CPROVER_ensures(VP_NO_LOCK_HELD)
/* never runs the callback in the caller's context */
__CPROVER_ensures(g_cb_calls == OLD(g_cb_calls))
__CPROVER_ensures(!task->task_prep)
/* no callback: completes synchronously -- the count is back where it was (minus the prep), waiters
 * woken if that was the last one, nothing queued, no worker woken */
__CPROVER_ensures(task->task_cb == NULL ==> (task->task_busy == OLD(task->task_busy) - EXEC_DEC &&
        g_wk_task0 == OLD(g_wk_task0) + (task->task_busy == 0 ? 1u : 0u) && g_wk_sched == OLD(g_wk_sched)))
/* callback: counted once (not again if prepared), linked at the tail exactly once, one worker woken,
 * task waiters not woken */
__CPROVER_ensures(task->task_cb != NULL ==> (task->task_busy == OLD(task->task_busy) + 1u - EXEC_DEC && task->task_busy >= 1 &&
        g_wk_task0 == OLD(g_wk_task0) && g_wk_sched == OLD(g_wk_sched) + 1 && g_wk_sched_all == OLD(g_wk_sched_all)))
__CPROVER_ensures(task->task_cb != NULL ==> TASK_APPENDED(task, OLD(TQ_HEAD(task->task_tq).ln_prev)))
COVER(task->task_cb == NULL && !OLD(task->task_prep) && task->task_busy == 0)
COVER(task->task_cb == NULL && OLD(task->task_prep) && task->task_busy == 1)
COVER(task->task_cb != NULL && OLD(task->task_prep) && OLD(TQ_HEAD(task->task_tq).ln_prev) == &TQ_HEAD(task->task_tq))
COVER(task->task_cb != NULL && !OLD(task->task_prep) && OLD(TQ_HEAD(task->task_tq).ln_prev) != &TQ_HEAD(task->task_tq))
;

/* ---- nni_task_wait / nni_task_fini ---------------------------------------- */
void nni_task_wait(nni_task *task)
__CPROVER_requires(TASK_PRE(task) && !g_cv_waited)
__CPROVER_assigns(task->task_busy, g_cv_waited, VP_SYNC_GHOSTS)
/* returns only when nothing is outstanding; does not sleep when nothing was */
__CPROVER_ensures(task->task_busy == 0 && VP_NO_LOCK_HELD)
__CPROVER_ensures(OLD(task->task_busy) == 0 ==> (!g_cv_waited && g_lock_ops == OLD(g_lock_ops) + 2))
__CPROVER_ensures(OLD(task->task_busy) != 0 ==> g_cv_waited)
COVER(OLD(task->task_busy) == 0) COVER(OLD(task->task_busy) == 2)
;

void nni_task_fini(nni_task *task)
__CPROVER_requires(TASK_PRE(task) && !g_cv_waited)
__CPROVER_assigns(task->task_busy, g_cv_waited, g_cv_fini, g_mtx_fini, VP_SYNC_GHOSTS)
/* the task is torn down only when nothing is outstanding, with its lock free */
__CPROVER_ensures(task->task_busy == 0 && VP_NO_LOCK_HELD)
__CPROVER_ensures(g_cv_fini == OLD(g_cv_fini) + 1 && g_mtx_fini == OLD(g_mtx_fini) + 1)
__CPROVER_ensures(OLD(task->task_busy) == 0 ==> !g_cv_waited)
__CPROVER_ensures(OLD(task->task_busy) != 0 ==> g_cv_waited)
COVER(OLD(task->task_busy) == 0) COVER(OLD(task->task_busy) == 2)
;

/* ---- nni_taskq_thread: the worker (grade B: at most 2 queued tasks, skeleton built by the harness
 * from real objects with the real list code; thread exit modelled by the cv-wait stub) ------------
 * g_nq tasks g_t0 [, g_t1] are queued in that order; every queued task was counted by its dispatch
 * (busy >= 1).  Callback model: vp_cb (asserts: no lock held, task off the queue, task counted
 * busy, own argument); with g_cb_mode == 1 the FIRST run of g_t0's callback re-dispatches g_t0. */
#define TQ_EMPTY(tq) (TQ_HEAD(tq).ln_next == &TQ_HEAD(tq) && TQ_HEAD(tq).ln_prev == &TQ_HEAD(tq))
#define TQ_IS1(tq, a) (TQ_HEAD(tq).ln_next == &(a)->task_node && (a)->task_node.ln_next == &TQ_HEAD(tq) && \
	    TQ_HEAD(tq).ln_prev == &(a)->task_node && (a)->task_node.ln_prev == &TQ_HEAD(tq))
#define TQ_IS2(tq, a, b) (TQ_HEAD(tq).ln_next == &(a)->task_node && (a)->task_node.ln_next == &(b)->task_node && \
	    (b)->task_node.ln_next == &TQ_HEAD(tq) && TQ_HEAD(tq).ln_prev == &(b)->task_node && \
	    (b)->task_node.ln_prev == &(a)->task_node && (a)->task_node.ln_prev == &TQ_HEAD(tq))
#define WK_REDO (g_cb_mode == 1 && g_nq > 0)
#define WK_RUNS (g_nq + (WK_REDO ? 1u : 0u))
static void nni_taskq_thread(void *self)
__CPROVER_requires(self == (void *) g_thr && g_thr->tqt_tq == g_tq && VP_LOCKS_CLEAR && g_worker_unit && g_cb_arg_is_task)
__CPROVER_requires(g_nq <= 2 && (g_cb_mode == 0 || g_cb_mode == 1) && !g_cb_redo_done && !g_cv_waited && g_cb_base == g_cb_calls)
__CPROVER_requires(g_nq == 0 ? TQ_EMPTY(g_tq) : (g_nq == 1 ? TQ_IS1(g_tq, g_t0) : TQ_IS2(g_tq, g_t0, g_t1)))
__CPROVER_requires(g_nq < 2 ==> TASK_OFFQ(g_t1))
__CPROVER_requires(g_nq < 1 ==> TASK_OFFQ(g_t0))
__CPROVER_requires(g_t0->task_cb == vp_cb && g_t1->task_cb == vp_cb && g_t0->task_arg == g_t0 && g_t1->task_arg == g_t1)
__CPROVER_requires(g_t0->task_tq == g_tq && g_t1->task_tq == g_tq)
/* representation invariant of the counter: one for the queue entry (counted by the dispatch that queued it)
 * plus one if the task has been prepared again since */
__CPROVER_requires((g_nq >= 1 ==> (g_t0->task_busy >= 1u + (g_t0->task_prep ? 1u : 0u) && g_t0->task_busy <= TASK_BUSY_MAX)) && (g_nq >= 2 ==> g_t1->task_busy >= 1u + (g_t1->task_prep ? 1u : 0u)))
__CPROVER_assigns(TQ_HEAD(g_tq), g_tq->tq_run, g_t0->task_node, g_t1->task_node, g_t0->task_busy, g_t1->task_busy, g_t0->task_prep)
__CPROVER_assigns(TASK_CB_GHOSTS, g_cb_seq, g_cb_redo_done, g_wk_task0, g_wk_task1, g_wk_sched, g_wk_drain, g_cv_waited, g_thread_entered, VP_SYNC_GHOSTS)
/* returns with every lock released, the queue empty, the thread told to stop */
__CPROVER_ensures(VP_NO_LOCK_HELD && TQ_EMPTY(g_tq) && TASK_OFFQ(g_t0) && TASK_OFFQ(g_t1) && !g_tq->tq_run)
/* every queued entry was run exactly once, FIRST one first (FIFO), a re-dispatched task behind the rest */
__CPROVER_ensures(g_cb_calls == OLD(g_cb_calls) + WK_RUNS)
__CPROVER_ensures(g_nq >= 1 ==> g_cb_seq[0] == g_t0)
__CPROVER_ensures(g_nq == 2 ==> g_cb_seq[1] == g_t1)
__CPROVER_ensures(WK_REDO ==> g_cb_seq[g_nq] == g_t0)
/* each run takes its task's count down by exactly one; the re-dispatch from the callback adds one unless it
 * consumes a prep (which was counted already) */
__CPROVER_ensures((g_nq >= 1 && !WK_REDO) ==> (g_t0->task_busy == OLD(g_t0->task_busy) - 1u && g_t0->task_prep == OLD(g_t0->task_prep)))
__CPROVER_ensures(WK_REDO ==> (g_t0->task_busy == OLD(g_t0->task_busy) - 1u - (OLD(g_t0->task_prep) ? 1u : 0u) && !g_t0->task_prep))
__CPROVER_ensures(g_nq == 2 ==> g_t1->task_busy == OLD(g_t1->task_busy) - 1u)
__CPROVER_ensures(g_nq < 1 ==> g_t0->task_busy == OLD(g_t0->task_busy))
__CPROVER_ensures(g_nq < 2 ==> g_t1->task_busy == OLD(g_t1->task_busy))
__CPROVER_ensures(g_nq < 1 ==> g_t0->task_prep == OLD(g_t0->task_prep))
/* task waiters are woken exactly when the count reaches zero */
__CPROVER_ensures(g_wk_task0 == OLD(g_wk_task0) + ((g_nq >= 1 && g_t0->task_busy == 0) ? 1u : 0u))
__CPROVER_ensures(g_wk_task1 == OLD(g_wk_task1) + ((g_nq == 2 && g_t1->task_busy == 0) ? 1u : 0u))
/* drain waiters are woken every time the queue is found empty; the thread sleeps only on an empty queue while running */
__CPROVER_ensures(g_wk_drain == OLD(g_wk_drain) + (OLD(g_tq->tq_run) ? 2u : 1u) && g_cv_waited == OLD(g_tq->tq_run))
__CPROVER_ensures(g_wk_sched == OLD(g_wk_sched) + (WK_REDO ? 1u : 0u))
COVER(g_nq == 2 && g_cb_mode == 1 && OLD(g_tq->tq_run) && g_t0->task_busy == 0 && g_t1->task_busy == 3)
COVER(g_nq == 0 && !OLD(g_tq->tq_run))
COVER(g_nq == 1 && g_cb_mode == 0 && g_t0->task_busy == 0)
;

/* ---- nni_aio_expire_loop (src/core/aio.c; expire units, -DTQ_WITH_AIO; grade B) --------------------
 * g_na aios g_a0 [, g_a1] are on the expire list in that order, each with an operation in flight.
 * The per-iteration decision is checked where it is taken: vp_cancel (env_aio.h) asserts that a cancel
 * function is called only for an aio whose deadline has passed (or when the queue is stopping), with
 * the right code, with the lock released, the slot already cleared and the hold (a_expiring) in place;
 * vp_eq_sleep asserts that the thread never sleeps past the deadline of a listed aio. */
#ifdef TQ_WITH_AIO
#define EQ_HEAD(q) ((q)->eq_list.ll_head)
#define EQ_EMPTY(q) (EQ_HEAD(q).ln_next == &EQ_HEAD(q) && EQ_HEAD(q).ln_prev == &EQ_HEAD(q))
#define EQ_IS1(q, a) (EQ_HEAD(q).ln_next == &(a)->a_expire_node && (a)->a_expire_node.ln_next == &EQ_HEAD(q) && \
	    EQ_HEAD(q).ln_prev == &(a)->a_expire_node && (a)->a_expire_node.ln_prev == &EQ_HEAD(q))
#define EQ_IS2(q, a, b) (EQ_HEAD(q).ln_next == &(a)->a_expire_node && (a)->a_expire_node.ln_next == &(b)->a_expire_node && \
	    (b)->a_expire_node.ln_next == &EQ_HEAD(q) && EQ_HEAD(q).ln_prev == &(b)->a_expire_node && \
	    (b)->a_expire_node.ln_prev == &(a)->a_expire_node && (a)->a_expire_node.ln_prev == &EQ_HEAD(q))
#define AIO_OFF_EQ(a) ((a)->a_expire_node.ln_next == NULL && (a)->a_expire_node.ln_prev == NULL)
/* state of a listed aio: operation in flight (slot occupied, task prepared and counted, not queued),
 * deadline not before the queue's next wake-up */
#define AIO_LISTED_OK(a, i)                                                                          \
	((a)->a_init && (a)->a_expire_q == g_eq && !(a)->a_expiring && (a)->a_skipped_callback == NULL &&  \
	    (a)->a_cancel_fn == ((a)->a_sleep ? nni_sleep_cancel : vp_cancel) && g_eq->eq_next <= (a)->a_expire && \
	    g_ok0[i] == (a)->a_expire_ok && g_sleep0[i] == (a)->a_sleep && (a)->a_task.task_prep &&        \
	    (a)->a_task.task_busy >= 1 && (a)->a_task.task_busy <= 1000 && TASK_OFFQ(&(a)->a_task) &&     \
	    (a)->a_task.task_cb == vp_cb && (a)->a_task.task_arg == &(a)->a_task && (a)->a_task.task_tq == g_tq)
/* what the loop did to listed aio number i (a) when the thread has returned */
#define AIO_FIRED(i) (g_fire_n[i] == 1 && g_left[i] == 0)
#define AIO_LEFT(i) (g_fire_n[i] == 0 && g_left[i] == 1)
#define EXP_CODE(i) (g_eq->eq_stop ? NNG_ESTOPPED : (g_ok0[i] ? NNG_OK : NNG_ETIMEDOUT))
#define AIO_OUTCOME(a, i)                                                                            \
	(g_sleep0[i]                                                                                     \
	        ? (g_fire_n[i] == 0 &&                                                                   \
	              ((g_left[i] == 1 && (a)->a_sleep && (a)->a_cancel_fn == nni_sleep_cancel) ||       \
	                  (g_left[i] == 0 && !(a)->a_sleep && (a)->a_cancel_fn == NULL &&                \
	                      (a)->a_result == EXP_CODE(i) && !(a)->a_task.task_prep &&                  \
	                      (a)->a_task.task_node.ln_next != NULL)))                                   \
	        : ((AIO_LEFT(i) && (a)->a_cancel_fn == vp_cancel) ||                                     \
	              (AIO_FIRED(i) && (a)->a_cancel_fn == NULL && g_fire_rv[i] == (int) EXP_CODE(i) &&  \
	                  (g_cancel_finishes                                                             \
	                          ? ((a)->a_result == EXP_CODE(i) && (a)->a_expire == NNI_TIME_NEVER &&  \
	                                !(a)->a_task.task_prep && (a)->a_task.task_node.ln_next != NULL) \
	                          : (a)->a_task.task_prep))))
/* Never called in the expire units: both have the type of an indirect-call target of the code under
 * contract (task_cb(arg) / cancel_fn(aio, arg, rv)) and are therefore syntactic candidates at those call
 * sites.  REPLACED by these contracts in the expire units: the precondition `false` is asserted at every
 * call site, i.e. it is proved that the expire thread never reaches them (a sleep is completed in place,
 * not through nni_sleep_cancel); any implementation satisfies a contract with precondition false. */
void nni_aio_free_cb(void *aio)
__CPROVER_requires(false)
__CPROVER_assigns()
__CPROVER_ensures(true)
;
static void nni_sleep_cancel(nng_aio *aio, void *arg, nng_err rv)
__CPROVER_requires(false)
__CPROVER_assigns()
__CPROVER_ensures(true)
;
static void nni_aio_expire_loop(void *arg)
__CPROVER_requires(arg == (void *) g_eq && VP_LOCKS_CLEAR && g_expire_unit && g_cb_arg_is_task && g_na <= 2 && !g_race_done)
__CPROVER_requires(g_na == 0 ? EQ_EMPTY(g_eq) : (g_na == 1 ? EQ_IS1(g_eq, g_a0) : EQ_IS2(g_eq, g_a0, g_a1)))
__CPROVER_requires((g_na >= 1 ==> AIO_LISTED_OK(g_a0, 0)) && (g_na >= 2 ==> AIO_LISTED_OK(g_a1, 1)))
__CPROVER_requires((g_na < 1 ==> AIO_OFF_EQ(g_a0)) && (g_na < 2 ==> AIO_OFF_EQ(g_a1)))
__CPROVER_requires(g_fire_n[0] == 0 && g_fire_n[1] == 0 && g_left[0] == 0 && g_left[1] == 0 && TQ_EMPTY(g_tq))
__CPROVER_requires(g_race ==> (g_na == 2 && g_race_timeout > 0))
__CPROVER_requires(!g_in_cancel && g_passes == 0 && g_eq_sleeps == 0)
__CPROVER_assigns(__CPROVER_object_whole(g_eq), __CPROVER_object_whole(g_a0), __CPROVER_object_whole(g_a1), TQ_HEAD(g_tq))
__CPROVER_assigns(g_now, g_fire_n, g_fire_rv, g_fire_arg, g_left, g_race_done, g_in_cancel, g_passes, g_eq_sleeps, g_wk_eq, g_wk_sched, g_wk_task0, g_wk_task1, TASK_CB_GHOSTS, g_cb_seq, g_thread_entered, VP_SYNC_GHOSTS)
/* returns with the lock released, nothing listed, every hold dropped */
__CPROVER_ensures(VP_NO_LOCK_HELD && EQ_EMPTY(g_eq) && !g_a0->a_expiring && !g_a1->a_expiring && g_eq->eq_exit)
/* each listed operation was either expired exactly once -- cancel slot taken (cleared), the provider's cancel
 * function called exactly once with NNG_ESTOPPED / NNG_ETIMEDOUT / 0 (a_expire_ok); a sleep completed in place
 * with that code and its task dispatched -- or left alone, still listed, when the thread went to sleep */
__CPROVER_ensures((g_na >= 1 && !g_race) ==> AIO_OUTCOME(g_a0, 0))
__CPROVER_ensures((g_na >= 2 && !g_race) ==> AIO_OUTCOME(g_a1, 1))
/* an aio that was not listed is never touched */
__CPROVER_ensures(g_na < 1 ==> (g_fire_n[0] == 0 && g_left[0] == 0))
__CPROVER_ensures(g_na < 2 ==> (g_fire_n[1] == 0 && g_left[1] == 0))
/* with another thread completing and restarting g_a1 in the window: still at most one expiry per operation */
__CPROVER_ensures(g_race ==> (g_fire_n[0] + g_left[0] == 1 && g_fire_n[1] + g_left[1] <= 1))
/* ... and the operation started in the window (deadline after this pass's clock value) is NOT expired by the
 * stale batch entry: it is still listed, slot occupied, when the pass ends */
__CPROVER_ensures((g_race && g_race_done && !g_eq->eq_stop) ==> (g_fire_n[1] == 0 && g_left[1] == 1 && g_a1->a_cancel_fn == vp_cancel))
/* one pass or one sleep, then the (modelled) exit */
__CPROVER_ensures(g_passes + g_eq_sleeps <= 1)
COVER(g_na == 2 && !g_race && AIO_FIRED(0) && AIO_FIRED(1) && !g_sleep0[0] && !g_sleep0[1] && g_cancel_finishes && !g_eq->eq_stop && g_fire_rv[0] == NNG_ETIMEDOUT && g_fire_rv[1] == 0)
COVER(g_na == 2 && !g_race && AIO_FIRED(0) && AIO_LEFT(1) && !g_sleep0[0] && !g_sleep0[1])
COVER(g_na == 2 && !g_race && AIO_LEFT(0) && AIO_FIRED(1) && !g_sleep0[0] && !g_sleep0[1])
COVER(g_na == 2 && !g_race && g_sleep0[0] && g_left[0] == 0 && g_sleep0[1] && g_left[1] == 1)
COVER(g_na == 2 && !g_race && g_eq->eq_stop && AIO_FIRED(0) && g_sleep0[1])
COVER(g_na == 1 && AIO_FIRED(0) && g_fire_rv[0] == 0)
COVER(g_na == 1 && AIO_LEFT(0))
COVER(g_na == 0)
COVER(g_race && g_race_done && g_fire_n[0] == 1 && g_fire_n[1] == 0 && g_left[1] == 1)
COVER(g_race && g_race_done && g_fire_n[0] == 1 && g_fire_n[1] == 1)
;
#endif
/* clang-format on */
#endif
