/* Environment of the expire-loop units (ASSUMED models, ghost state only). */
#ifndef VP_TASKQ_ENV_AIO_H
#define VP_TASKQ_ENV_AIO_H
#ifdef TQ_WITH_AIO
nni_time nni_clock(void)
{
#ifdef TQ_TIMES
	/* concrete-time case: every read is one millisecond later */
	g_now = g_now + 1;
	return (g_now);
#endif
	nni_time t = nondet_u64();
	/* ASSUMED: millisecond clock far from wrap-around; STRICTLY increasing from read to read
	 * (time passes between two iterations of the expire loop: bounds the a_expire == now spin) */
	__CPROVER_assume(t > g_now && t < ((nni_time) 1 << 62));
	g_now = t;
	return (t);
}
uint32_t nni_random(void) { return (g_random); }
void nni_reap(nni_reap_list *rl, void *item) { (void) rl; (void) item; g_reaped++; }
size_t nni_msg_len(const nni_msg *m) { (void) m; return (nondet_size_t()); }

#define VP_AIDX(aio) ((aio) == g_a0 ? 0 : 1)
/* the provider's cancel function */
static void
vp_cancel(nni_aio *aio, void *arg, nng_err rv)
{
	size_t i = VP_AIDX(aio);
	__CPROVER_assert(aio == g_a0 || aio == g_a1, "cancel: one of the aios under study");
	__CPROVER_assert(VP_NO_LOCK_HELD, "cancel function invoked with the expire lock released");
	__CPROVER_assert(aio->a_cancel_fn == NULL, "single-winner token: the cancel slot was cleared (under the lock) before the cancel function runs");
	__CPROVER_assert(aio->a_expiring, "the expire thread holds the aio (a_expiring) while it calls into the provider");
	/* C02: "A timeout never fires before the configured duration" / the code handed over */
	__CPROVER_assert(g_eq->eq_stop || aio->a_expire < g_now, "C02: a timeout fires only for an operation whose deadline has passed (a_expire < now)");
	__CPROVER_assert(rv == (g_eq->eq_stop ? NNG_ESTOPPED : NNG_ETIMEDOUT) || (!g_eq->eq_stop && rv == NNG_OK && g_ok0[i] && g_fire_n[i] == 0),
	    "expiry code: NNG_ESTOPPED when the queue is stopping, else NNG_ETIMEDOUT (0 only for an operation that asked for it: a_expire_ok)");
	g_in_cancel = true;
	g_fire_n[i]++;
	g_fire_rv[i]  = (int) rv;
	g_fire_arg[i] = arg;
	if (g_race && aio == g_a0 && !g_race_done && !g_a1->a_sleep && g_a1->a_cancel_fn != NULL && !g_a1->a_stop && !g_eq->eq_stop) {
		/* What other threads may do while the expire lock is dropped: the provider of the other aio
		 * completes its operation normally (REAL nni_aio_finish) and the consumer starts the next
		 * operation on it with a fresh relative timeout (REAL nni_aio_set_timeout / nni_aio_start).
		 * (Not for a stopped aio / queue: the start would be refused and complete through the task that
		 * is still queued -- no worker thread runs in this model.) */
		g_race_done = true;
		nni_aio_finish(g_a1, NNG_OK, 0); /* its completion task is queued */
		nni_aio_set_timeout(g_a1, g_race_timeout);
		(void) nni_aio_start(g_a1, vp_cancel, NULL);
	}
	if (g_cancel_finishes) {
		/* the usual provider: "still on my list => I complete it with rv" */
		nni_aio_finish_error(aio, rv);
	}
	g_in_cancel = false;
}
nni_aio_cancel_fn vp_cancel_ref = vp_cancel;

/* Sequential stand-in for the rest of the world, so that the thread body terminates after ONE pass
 * (one per-iteration decision): the providers take the still listed aios off the list (as
 * nni_aio_finish_impl does) and the queue is told to exit. */
static void
vp_eq_world_finishes(void)
{
	if (nni_list_node_active(&g_a0->a_expire_node)) {
		nni_list_node_remove(&g_a0->a_expire_node);
		g_left[0]++;
	}
	if (nni_list_node_active(&g_a1->a_expire_node)) {
		nni_list_node_remove(&g_a1->a_expire_node);
		g_left[1]++;
	}
	g_eq->eq_exit = true;
	/* the list is empty now; writing the (asserted) same value again is a no-op that lets symbolic
	 * execution see a CONSTANT empty list, so that the thread's exit test is decided during symex */
	__CPROVER_assert(g_eq->eq_list.ll_head.ln_next == &g_eq->eq_list.ll_head && g_eq->eq_list.ll_head.ln_prev == &g_eq->eq_list.ll_head,
	    "model: the expire list is empty once the remaining aios have been taken off");
	g_eq->eq_list.ll_head.ln_next = &g_eq->eq_list.ll_head;
	g_eq->eq_list.ll_head.ln_prev = &g_eq->eq_list.ll_head;
}
/* the expire thread goes to sleep until `when` */
static void
vp_eq_sleep(nni_cv *cv, nni_time when)
{
	__CPROVER_assert(VP_HELD((nni_mtx *) cv->mtx), "cv wait with the cv's own mutex held");
	g_eq_sleeps++;
	/* it sleeps only when nothing listed is overdue, and not beyond the earliest deadline */
	__CPROVER_assert(!nni_list_node_active(&g_a0->a_expire_node) || (when <= g_a0->a_expire && g_now <= g_a0->a_expire), "sleep: not beyond the deadline of a listed aio");
	__CPROVER_assert(!nni_list_node_active(&g_a1->a_expire_node) || (when <= g_a1->a_expire && g_now <= g_a1->a_expire), "sleep: not beyond the deadline of a listed aio");
	vp_eq_world_finishes();
}
/* every wake-up on the expire cv happens under the expire lock, g_now being the clock value of the
 * current iteration: a sleep (nng_sleep_aio) that has been completed by the loop had its deadline behind it */
static void
vp_eq_wake_check(void)
{
	__CPROVER_assert(!(g_sleep0[0] && !g_a0->a_sleep && g_left[0] == 0) || g_eq->eq_stop || g_a0->a_expire < g_now, "C02: a sleep is completed by the expire thread only after its deadline (a_expire < now)");
	__CPROVER_assert(!(g_sleep0[1] && !g_a1->a_sleep && g_left[1] == 0) || g_eq->eq_stop || g_a1->a_expire < g_now, "C02: a sleep is completed by the expire thread only after its deadline (a_expire < now)");
	if (!g_in_cancel) {
		/* the wake-up that ends a pass of the expire thread (not the one of nni_aio_expire_add in the race model) */
		g_passes++;
		/* no lost timeout: an aio that this pass left on the list (not due yet, or due but beyond the batch of
		 * NNI_EXPIRE_BATCH) is looked at again no later than its deadline -- the queue's next wake-up time is
		 * not behind it (a stopping queue does not sleep while anything is listed) */
		__CPROVER_assert(!nni_list_node_active(&g_a0->a_expire_node) || g_eq->eq_stop || g_eq->eq_next <= g_a0->a_expire, "C02: end of pass: next wake-up not later than the deadline of an aio left on the list");
		__CPROVER_assert(!nni_list_node_active(&g_a1->a_expire_node) || g_eq->eq_stop || g_eq->eq_next <= g_a1->a_expire, "C02: end of pass: next wake-up not later than the deadline of an aio left on the list");
		vp_eq_world_finishes();
	}
}
#else
static void vp_eq_wake_check(void) {}
static void vp_eq_sleep(nni_cv *cv, nni_time when) { (void) cv; (void) when; __CPROVER_assert(0, "expire cv only in expire units"); }
#endif
#endif
