/* One entry per function under contract: arguments unconstrained, ghosts
 * havocked; the precondition (assumed by the DFCC wrapper) is the only
 * restriction. */
#define VP_CNT(x) do { x = nondet_size_t(); __CPROVER_assume(x < ((size_t) 1 << 40)); } while (0)
#define VP_HAVOC_GHOSTS()                                                  \
	do {                                                                   \
		g_task = nondet_ptr(); g_tq = nondet_ptr(); g_t0 = NULL; g_t1 = NULL; \
		VP_CNT(g_cb_calls); g_cb_base = g_cb_calls; g_cb_arg = nondet_ptr(); \
		g_cb_busy = nondet_unsigned(); g_cb_mode = nondet_int();           \
		g_cb_arg_is_task = nondet_bool(); g_cb_redo_done = false;          \
		g_cv_task0 = nondet_ptr(); g_cv_task1 = NULL; g_cv_sched = nondet_ptr(); g_cv_drain = nondet_ptr(); \
		VP_CNT(g_wk_task0); VP_CNT(g_wk_task1); VP_CNT(g_wk_sched); VP_CNT(g_wk_sched_all); \
		VP_CNT(g_wk_drain); VP_CNT(g_cv_waits); VP_CNT(g_cv_fini); VP_CNT(g_mtx_fini); \
		VP_CNT(g_thr_init); VP_CNT(g_thr_run); VP_CNT(g_thr_fini);         \
		g_thr_init_fail_at = nondet_int(); g_thr_init_rv = nondet_int();   \
		VP_CNT(g_free_calls); VP_CNT(g_alloc_ok);                          \
		nni_taskq_systq = nondet_ptr(); VP_HAVOC_SYNC();                   \
	} while (0)

void h_task_init(void) { nni_task *t; nni_taskq *tq; nni_cb cb; void *arg; VP_HAVOC_GHOSTS(); nni_task_init(t, tq, cb, arg); VP_CANARY(); }
void h_task_prep(void) { nni_task *t; VP_HAVOC_GHOSTS(); nni_task_prep(t); VP_CANARY(); }
void h_task_busy(void) { nni_task *t; VP_HAVOC_GHOSTS(); nni_task_busy(t); VP_CANARY(); }
void h_task_exec(void) { nni_task *t; VP_HAVOC_GHOSTS(); nni_task_exec(t); VP_CANARY(); }
void h_task_dispatch(void) { nni_task *t; VP_HAVOC_GHOSTS(); nni_task_dispatch(t); VP_CANARY(); }
void h_task_wait(void) { nni_task *t; VP_HAVOC_GHOSTS(); nni_task_wait(t); VP_CANARY(); }
void h_task_fini(void) { nni_task *t; VP_HAVOC_GHOSTS(); nni_task_fini(t); VP_CANARY(); }
