/* One entry per function under contract: arguments unconstrained, ghosts
 * havocked; the precondition (assumed by the DFCC wrapper) is the only
 * restriction. */
#define VP_CNT(x) do { x = nondet_size_t(); __CPROVER_assume(x < ((size_t) 1 << 40)); } while (0)
#define VP_HAVOC_GHOSTS()                                                  \
	do {                                                                   \
		g_task = nondet_ptr(); g_tq = nondet_ptr(); g_t0 = NULL; g_t1 = NULL; \
		VP_CNT(g_cb_calls); g_cb_base = g_cb_calls; g_cb_arg = nondet_ptr(); \
		g_cb_busy = nondet_unsigned(); g_cb_mode = nondet_int();           \
		g_cb_arg_is_task = nondet_bool(); g_cb_redo_done = false;          \
		g_cv_task0 = nondet_ptr(); g_cv_task1 = NULL; g_cv_sched = nondet_ptr(); g_cv_drain = nondet_ptr(); \
		VP_CNT(g_wk_task0); VP_CNT(g_wk_task1); VP_CNT(g_wk_sched); VP_CNT(g_wk_sched_all); \
		VP_CNT(g_wk_drain); g_cv_waited = nondet_bool(); g_q_empty = nondet_bool(); g_worker_unit = false; g_expire_unit = false; g_thread_entered = false; g_cv_eq = NULL; g_eq = NULL; VP_CNT(g_cv_fini); VP_CNT(g_mtx_fini); \
		VP_CNT(g_thr_init); VP_CNT(g_thr_run); VP_CNT(g_thr_fini);         \
		g_thr_init_fail_at = nondet_int(); g_thr_init_rv = nondet_int();   \
		VP_CNT(g_free_calls); VP_CNT(g_alloc_ok);                          \
		nni_taskq_systq = nondet_ptr(); VP_HAVOC_SYNC();                   \
	} while (0)

void h_task_init(void) { nni_task *t; nni_taskq *tq; nni_cb cb; void *arg; VP_HAVOC_GHOSTS(); nni_task_init(t, tq, cb, arg); VP_CANARY(); }
void h_task_prep(void) { nni_task *t; VP_HAVOC_GHOSTS(); nni_task_prep(t); VP_CANARY(); }
void h_task_busy(void) { nni_task *t; VP_HAVOC_GHOSTS(); nni_task_busy(t); VP_CANARY(); }
void h_task_exec(void) { nni_task *t; VP_HAVOC_GHOSTS(); nni_task_exec(t); VP_CANARY(); }
void h_task_dispatch(void) { nni_task *t; VP_HAVOC_GHOSTS(); nni_task_dispatch(t); VP_CANARY(); }
void h_task_wait(void) { nni_task *t; VP_HAVOC_GHOSTS(); nni_task_wait(t); VP_CANARY(); }
void h_task_fini(void) { nni_task *t; VP_HAVOC_GHOSTS(); nni_task_fini(t); VP_CANARY(); }

/* ---- worker thread: skeleton of real objects, queue built with the real list code ---- */
#define VP_NEW(T) ((T *) __CPROVER_allocate(sizeof(T), 0))
static nni_task *vp_mk_task(bool queued)
{
	nni_task *t = VP_NEW(nni_task);
	t->task_node.ln_next = NULL;
	t->task_node.ln_prev = NULL;
	t->task_cb           = vp_cb;
	t->task_arg          = t;
	t->task_tq           = g_tq;
	t->task_cv.mtx       = &t->task_mtx.mtx; /* nni_cv_init */
	t->task_prep         = nondet_bool();
	if (queued) {
		nni_list_append(&g_tq->tq_tasks, t);
	}
	return (t);
}
void h_taskq_thread(void)
{
	VP_HAVOC_GHOSTS();
	g_worker_unit    = true;
	g_cb_arg_is_task = true;
#ifdef TQ_NQ
	g_nq = TQ_NQ; /* constant case split (DESIGN section 9: list walks need a concrete skeleton) */
#else
	g_nq = nondet_size_t();
	__CPROVER_assume(g_nq <= 2);
#endif
#ifdef TQ_MODE
	g_cb_mode = TQ_MODE;
#endif
	g_tq = VP_NEW(nni_taskq);
	NNI_LIST_INIT(&g_tq->tq_tasks, nni_task, task_node);
	g_tq->tq_run          = nondet_bool();
	g_tq->tq_sched_cv.mtx = &g_tq->tq_mtx.mtx;
	g_tq->tq_wait_cv.mtx  = &g_tq->tq_mtx.mtx;
	g_t0         = vp_mk_task(g_nq >= 1);
	g_t1         = vp_mk_task(g_nq >= 2);
	g_task       = NULL;
	g_cv_task0   = &g_t0->task_cv;
	g_cv_task1   = &g_t1->task_cv;
	g_cv_sched   = &g_tq->tq_sched_cv;
	g_cv_drain   = &g_tq->tq_wait_cv;
	g_thr        = VP_NEW(struct nni_taskq_thr);
	g_thr->tqt_tq = g_tq;
	nni_taskq_thread(g_thr);
	VP_CANARY();
}

/* ---- expire thread (real src/core/aio.c): skeleton of real objects, lists built with the real list code ---- */
#ifdef TQ_WITH_AIO
static nni_aio *vp_mk_aio(size_t i, bool listed)
{
	nni_aio *a = VP_NEW(nni_aio);
	a->a_init                = true;
	a->a_expire_q            = g_eq;
	a->a_expire_node.ln_next = NULL;
	a->a_expire_node.ln_prev = NULL;
	a->a_prov_node.ln_next   = NULL;
	a->a_prov_node.ln_prev   = NULL;
	a->a_expiring            = false;
	a->a_skipped_callback    = NULL;
#ifdef TQ_SLEEP
	a->a_sleep               = TQ_SLEEP;
#else
	a->a_sleep               = nondet_bool();
#endif
	a->a_expire_ok           = nondet_bool();
	a->a_stop                = nondet_bool();
	a->a_stopped             = false;
	a->a_abort               = false;
	a->a_use_expire          = nondet_bool();
	a->a_cancel_fn           = a->a_sleep ? nni_sleep_cancel : vp_cancel;
	g_sleep0[i]              = a->a_sleep;
	g_ok0[i]                 = a->a_expire_ok;
	/* its completion task: prepared by nni_aio_start, counted, not queued */
	a->a_task.task_node.ln_next = NULL;
	a->a_task.task_node.ln_prev = NULL;
	a->a_task.task_cb           = vp_cb;
	a->a_task.task_arg          = &a->a_task;
	a->a_task.task_tq           = g_tq;
	a->a_task.task_cv.mtx       = &a->a_task.task_mtx.mtx;
	a->a_task.task_prep         = true;
	if (listed) {
		nni_list_append(&g_eq->eq_list, a);
	}
	return (a);
}
void h_expire_loop(void)
{
	VP_HAVOC_GHOSTS();
	g_expire_unit    = true;
	g_cb_arg_is_task = true;
	g_cb_mode        = 0;
	g_na             = TQ_NA; /* constant case split */
	g_race           = TQ_RACE;
	g_race_done      = false;
	g_in_cancel      = false;
	g_passes         = 0;
	g_eq_sleeps      = 0;
	g_race_timeout   = nondet_int();
#ifdef TQ_CF
	g_cancel_finishes = TQ_CF;
#else
	g_cancel_finishes = nondet_bool();
#endif
	g_now            = nondet_u64();
	__CPROVER_assume(g_now < ((nni_time) 1 << 61));
	g_fire_n[0] = 0; g_fire_n[1] = 0; g_left[0] = 0; g_left[1] = 0;
	g_tq = VP_NEW(nni_taskq);
	NNI_LIST_INIT(&g_tq->tq_tasks, nni_task, task_node);
	g_tq->tq_sched_cv.mtx = &g_tq->tq_mtx.mtx;
	g_tq->tq_wait_cv.mtx  = &g_tq->tq_mtx.mtx;
	g_eq = VP_NEW(nni_aio_expire_q);
	NNI_LIST_INIT(&g_eq->eq_list, nni_aio, a_expire_node);
	g_eq->eq_cv.mtx = &g_eq->eq_mtx.mtx;
	g_eq->eq_stop   = nondet_bool();
	g_eq->eq_exit   = nondet_bool();
	g_a0       = vp_mk_aio(0, g_na >= 1);
	g_a1       = vp_mk_aio(1, g_na >= 2);
	g_task     = NULL;
	g_cv_task0 = &g_a0->a_task.task_cv;
	g_cv_task1 = &g_a1->a_task.task_cv;
	g_cv_sched = &g_tq->tq_sched_cv;
	g_cv_drain = &g_tq->tq_wait_cv;
	g_cv_eq    = &g_eq->eq_cv;
#ifdef TQ_TIMES
	/* concrete-time case (keeps list membership concrete for symbolic execution): both deadlines have
	 * passed at the first clock read (100), the queue is neither stopping nor exiting */
	g_now             = 99;
	g_eq->eq_next     = 50;
	g_eq->eq_stop     = false;
	g_eq->eq_exit     = false;
	g_a0->a_expire    = 50;
	g_a1->a_expire    = 60;
	g_race_timeout    = 10000;
#endif
	nni_aio_expire_loop(g_eq);
	VP_CANARY();
}
#endif
