/* Environment of taskq.c (ASSUMED models, ghost state only).
 *
 * Sequential model: no thread interleaving is explored.  Mutexes are ghost
 * "held" flags (lock discipline asserted), condition variables are counters
 * (a wake must happen under the cv's own mutex; a wait must hold it), the
 * task callback is the model vp_cb.  The intrusive list is the REAL
 * src/core/list.c (second source of the TU), not a model. */
#ifndef VP_TASKQ_ENV_H
#define VP_TASKQ_ENV_H

/* ---- mutexes: include/env_sync.h with a third slot; a slot is released on unlock, so
 * "no lock held" <=> all slots empty (VP_LOCKS_CLEAR is then an invariant between calls) ---- */
void nni_mtx_init(nni_mtx *m) { (void) m; }
void nni_mtx_fini(nni_mtx *m)
{
	__CPROVER_assert(!VP_HELD(m), "mutex destroyed while held");
	g_mtx_fini++;
}
void
nni_mtx_lock(nni_mtx *m)
{
	g_lock_ops++;
	/* the slots are the set of mutexes currently held by this call chain */
	__CPROVER_assert(!VP_HELD(m), "lock: mutex already held by this call chain (self-deadlock)");
	if (!g_held_a) {
		g_mtx_a  = m;
		g_held_a = true;
	} else if (!g_held_b) {
		g_mtx_b  = m;
		g_held_b = true;
	} else {
		__CPROVER_assert(!g_held_c, "lock: more than three mutexes held at once (model limit)");
		g_mtx_c  = m;
		g_held_c = true;
	}
}
void
nni_mtx_unlock(nni_mtx *m)
{
	g_lock_ops++;
	__CPROVER_assert(VP_HELD(m), "unlock of a mutex that is not held");
	if (g_held_a && m == g_mtx_a) {
		g_held_a = false;
		g_mtx_a  = NULL;
	} else if (g_held_b && m == g_mtx_b) {
		g_held_b = false;
		g_mtx_b  = NULL;
	} else {
		g_held_c = false;
		g_mtx_c  = NULL;
	}
}
#define VP_HAVOC_SYNC() do { g_mtx_a = NULL; g_mtx_b = NULL; g_mtx_c = NULL; g_held_a = false; g_held_b = false; g_held_c = false; g_lock_ops = 0; } while (0)

/* ---- condition variables ------------------------------------------------- */
/* as src/platform/posix/posix_thread.c: the cv remembers its mutex */
void nni_cv_init(nni_cv *cv, nni_mtx *m) { cv->mtx = &m->mtx; }
void nni_cv_fini(nni_cv *cv) { (void) cv; g_cv_fini++; }
static void vp_eq_wake_check(void);
static void vp_cv_count(nni_cv *cv, bool all)
{
	__CPROVER_assert(cv == g_cv_task0 || cv == g_cv_task1 || cv == g_cv_sched || cv == g_cv_drain || cv == g_cv_eq,
	    "cv: one of the condition variables of the objects under study");
	__CPROVER_assert(VP_HELD((nni_mtx *) cv->mtx), "cv wake under the cv's own mutex (no lost wake-up)");
	if (cv == g_cv_eq) {
		g_wk_eq++;
		vp_eq_wake_check();
	} else if (cv == g_cv_task0) {
		g_wk_task0++;
	} else if (cv == g_cv_task1) {
		g_wk_task1++;
	} else if (cv == g_cv_sched) {
		g_wk_sched++;
		if (all) {
			g_wk_sched_all++;
		}
	} else {
		g_wk_drain++;
	}
}
void nni_cv_wake(nni_cv *cv) { vp_cv_count(cv, true); }
void nni_cv_wake1(nni_cv *cv) { vp_cv_count(cv, false); }
void nni_cv_wait(nni_cv *cv)
{
	__CPROVER_assert(cv == g_cv_task0 || cv == g_cv_sched || cv == g_cv_drain,
	    "cv: one of the condition variables of the objects under study");
	__CPROVER_assert(VP_HELD((nni_mtx *) cv->mtx), "cv wait with the cv's own mutex held");
	g_cv_waited = true;
	if (cv == g_cv_task0) {
		/* Sequential stand-in for everything other threads may do to the counter while
		 * this thread sleeps (executions finishing, new dispatches, spurious wake-up =
		 * unchanged): an arbitrary new value. */
		g_task->task_busy = nondet_unsigned();
	} else if (cv == g_cv_sched) {
		/* worker thread asleep on an empty queue: the one cross-thread effect modelled is
		 * nni_taskq_fini clearing tq_run (so that the thread body terminates) */
		g_tq->tq_run = false;
	} else {
		/* drain waiter: the workers have emptied the queue -- NOT modelled (nni_taskq_drain is not under contract) */
	}
}
static void vp_eq_sleep(nni_cv *cv, nni_time when);
int nni_cv_until(nni_cv *cv, nni_time when)
{
	if (cv == g_cv_eq && g_cv_eq != NULL) {
		vp_eq_sleep(cv, when);
	} else {
		nni_cv_wait(cv);
	}
	return (0);
}

/* ---- threads -------------------------------------------------------------- */
int nni_thr_init(nni_thr *thr, nni_thr_func fn, void *arg)
{
	(void) thr; (void) fn; (void) arg;
	if (g_thr_init_fail_at >= 0 && (size_t) g_thr_init_fail_at == g_thr_init) {
		g_thr_init++;
		return (g_thr_init_rv);
	}
	g_thr_init++;
	return (0);
}
void nni_thr_fini(nni_thr *thr) { (void) thr; g_thr_fini++; }
void nni_thr_run(nni_thr *thr) { (void) thr; g_thr_run++; }
void nni_thr_set_name(nni_thr *thr, const char *n)
{
	(void) thr;
	if (n[4] == 'a') {
		/* "nng:aio:expire": the same for nni_aio_expire_loop (expire units) */
		__CPROVER_assert(g_expire_unit && !g_thread_entered, "the expire thread body is entered only as a thread (once), never as a task callback");
		__CPROVER_assume(g_expire_unit && !g_thread_entered);
		g_thread_entered = true;
		return;
	}
	/* Only called as the first statement of nni_taskq_thread, which has the same type as a task
	 * callback and is therefore a syntactic candidate of every indirect call task_cb(arg).
	 * g_worker_unit is a CONSTANT of each harness: asserting it proves the thread body is never
	 * entered as a callback; the assume after the (checked) assert only lets symex prune. */
	__CPROVER_assert(g_worker_unit && !g_thread_entered, "the worker thread body is entered only as a thread (once), never as a task callback");
	__CPROVER_assume(g_worker_unit && !g_thread_entered);
	g_thread_entered = true;
}

void
nni_panic(const char *fmt, ...)
{
	(void) fmt;
	__CPROVER_assert(0, "nni_panic reached (library aborts the process)");
	__CPROVER_assume(0);
}

/* ---- the task callback ---------------------------------------------------- */
static void
vp_cb(void *arg)
{
	nni_task *t = g_cb_arg_is_task ? (nni_task *) arg : g_task;
	__CPROVER_assert(VP_NO_LOCK_HELD, "callback runs with every taskq / task lock released");
	__CPROVER_assert(t->task_busy >= 1, "the task is counted busy while its callback runs (nni_task_wait cannot return under a running callback)");
	__CPROVER_assert(arg == t->task_arg, "callback gets the task's own argument");
	if (g_cb_calls - g_cb_base < 4) {
		g_cb_seq[g_cb_calls - g_cb_base] = t;
	}
	g_cb_calls++;
	g_cb_arg  = arg;
	g_cb_busy = t->task_busy;
	if (g_cb_arg_is_task) {
		/* worker unit */
		__CPROVER_assert(TASK_OFFQ(t), "the task has left the queue when its callback runs");
		if (g_cb_mode == 1 && t == g_t0 && !g_cb_redo_done) {
			g_cb_redo_done = true;
			nni_task_dispatch(t); /* re-submission from inside the callback */
		}
	} else if (g_cb_mode == 1) {
		nni_task_dispatch(t); /* re-submission from inside the callback */
	} else if (g_cb_mode == 2) {
		nni_task_prep(t); /* the callback starts the next operation (nni_aio_start -> nni_task_prep) */
	}
}
nni_cb vp_cb_ref = vp_cb;
#include "modules/taskq/env_aio.h"
#endif
