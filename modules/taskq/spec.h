/* Spec macros for src/core/taskq.c (macros only; ghost state in ghost.h). */
#ifndef VP_TASKQ_SPEC_H
#define VP_TASKQ_SPEC_H

/* lock model */
#define VP_HELD(m) ((g_mtx_a == (m) && g_held_a) || (g_mtx_b == (m) && g_held_b) || (g_mtx_c == (m) && g_held_c))
#define VP_NO_LOCK_HELD (!g_held_a && !g_held_b && !g_held_c)
#define VP_LOCKS_CLEAR (g_mtx_a == NULL && g_mtx_b == NULL && g_mtx_c == NULL && VP_NO_LOCK_HELD)
#define VP_SYNC_GHOSTS g_mtx_a, g_mtx_b, g_mtx_c, g_held_a, g_held_b, g_held_c, g_lock_ops
/* exactly the mutex m is held (slot a: the first mutex locked since VP_LOCKS_CLEAR) */
#define VP_ONLY_HELD_A(m) (g_mtx_a == (m) && g_held_a && !g_held_b && !g_held_c)

/* a task and (the part that is touched of) its queue */
#define TQ_HEAD(tq) ((tq)->tq_tasks.ll_head)
#define TASK_OFFQ(t) ((t)->task_node.ln_next == NULL && (t)->task_node.ln_prev == NULL)
/* busy counts the promised-but-unfinished executions; a prepared task is already counted */
#define TASK_INV(t) (!(t)->task_prep || (t)->task_busy >= 1)
#define TASK_BUSY_MAX (0xfffffffeU)

/* LOCAL shape of the intrusive queue, any length: only the tail end is described (the only part
 * nni_list_append touches): either the list is empty (head linked to itself) or the tail is some
 * other task object whose successor is the head.  Everything else is outside every assigns clause. */
#define TQ_TAIL_SHAPE(tq)                                                                  \
	((tq)->tq_tasks.ll_offset == offsetof(nni_task, task_node) &&                          \
	    ((g_q_empty && __CPROVER_pointer_in_range_dfcc(&TQ_HEAD(tq), TQ_HEAD(tq).ln_prev, &TQ_HEAD(tq)) && \
	         __CPROVER_pointer_in_range_dfcc(&TQ_HEAD(tq), TQ_HEAD(tq).ln_next, &TQ_HEAD(tq))) || \
	        (!g_q_empty && __CPROVER_is_fresh(TQ_HEAD(tq).ln_prev, sizeof(nni_task)) &&                  \
	            __CPROVER_pointer_in_range_dfcc(&TQ_HEAD(tq), TQ_HEAD(tq).ln_prev->ln_next, &TQ_HEAD(tq)))))

#define TASK_PRE(t)                                                                        \
	(__CPROVER_is_fresh((t), sizeof(nni_task)) &&                                          \
	    __CPROVER_pointer_in_range_dfcc((t), g_task, (t)) && g_cv_task0 == &(t)->task_cv && \
	    (t)->task_cv.mtx == &(t)->task_mtx.mtx && VP_LOCKS_CLEAR)
#define TASK_TQ_PRE(t)                                                                     \
	(__CPROVER_is_fresh((t)->task_tq, sizeof(nni_taskq)) &&                                \
	    __CPROVER_pointer_in_range_dfcc((t)->task_tq, g_tq, (t)->task_tq) &&               \
	    g_cv_sched == &(t)->task_tq->tq_sched_cv && g_cv_drain == &(t)->task_tq->tq_wait_cv && \
	    (t)->task_tq->tq_sched_cv.mtx == &(t)->task_tq->tq_mtx.mtx &&                      \
	    (t)->task_tq->tq_wait_cv.mtx == &(t)->task_tq->tq_mtx.mtx && TQ_TAIL_SHAPE((t)->task_tq))

/* the task is the LAST element of its queue, linked behind what was the tail before */
#define TASK_APPENDED(t, oldtail)                                                          \
	(TQ_HEAD((t)->task_tq).ln_prev == &(t)->task_node &&                                   \
	    (t)->task_node.ln_next == &TQ_HEAD((t)->task_tq) &&                                \
	    (t)->task_node.ln_prev == (oldtail) && (oldtail)->ln_next == &(t)->task_node)

#define TASK_CB_GHOSTS g_cb_calls, g_cb_arg, g_cb_busy
#define TASK_WAKE_GHOSTS g_wk_task0, g_wk_sched
#endif
