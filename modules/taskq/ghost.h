/* Ghost state of the taskq.c environment model (declared before the real
 * source so that woven loop invariants can name it).  No nng code. */
#ifndef VP_TASKQ_GHOST_H
#define VP_TASKQ_GHOST_H
#include "core/nng_impl.h"

/* --- lock model: a copy of include/env_sync.h with a THIRD slot (the worker
 * thread touches the queue lock and the lock of every task it runs) -------- */
nni_mtx *g_mtx_a, *g_mtx_b, *g_mtx_c; /* identities of tracked mutexes (set on first lock) */
bool     g_held_a, g_held_b, g_held_c;
size_t   g_lock_ops;

/* --- objects under study (addresses; established by the preconditions) --- */
nni_task  *g_task;     /* the task under contract (P units) */
nni_taskq *g_tq;       /* its queue */
bool       g_q_empty;  /* free ghost: case split of the queue shape precondition */
struct nni_taskq_thr *g_thr; /* worker unit: the thread record */
size_t     g_nq;       /* worker unit: number of queued tasks */
nni_task  *g_t0, *g_t1; /* queued tasks of the worker-thread unit, in queue order */

/* --- the task callback model vp_cb ---------------------------------------- */
size_t    g_cb_calls;  /* number of callback runs */
void     *g_cb_arg;    /* argument of the last run */
unsigned  g_cb_busy;   /* task_busy seen by the last run (must be >= 1) */
int       g_cb_mode;   /* 0 plain; 1 the callback re-dispatches its task; 2 it re-prepares it (next operation started) */
bool      g_cb_arg_is_task; /* worker unit: task_arg is the task itself */
nni_task *g_cb_seq[4]; /* worker unit: which task ran as call number i */
size_t    g_cb_base;   /* g_cb_calls at entry of the unit */
bool      g_cb_redo_done; /* worker unit: the one re-dispatch has happened */

/* --- condition variables (identified by address) -------------------------- */
nni_cv   *g_cv_task0, *g_cv_task1, *g_cv_sched, *g_cv_drain;
size_t    g_wk_task0;  /* nni_cv_wake on the task's cv (g_task or g_t0) */
size_t    g_wk_task1;  /* ... on g_t1's cv */
size_t    g_wk_sched;  /* wake-ups of the worker threads (wake or wake1 on tq_sched_cv) */
size_t    g_wk_sched_all; /* of which: wake-all */
size_t    g_wk_drain;  /* nni_cv_wake on tq_wait_cv (drain waiters) */
bool      g_cv_waited; /* nni_cv_wait was called */
bool      g_expire_unit; /* constant of the harness: the unit runs nni_aio_expire_loop as a thread */
bool      g_thread_entered; /* the thread body of the unit has been entered */
bool      g_sleep0[2];   /* expire units: a_sleep at entry */
bool      g_worker_unit; /* constant of the harness: the unit runs nni_taskq_thread as a thread */
size_t    g_cv_fini;   /* nni_cv_fini calls */
size_t    g_mtx_fini;  /* nni_mtx_fini calls */
size_t    g_thr_init, g_thr_run, g_thr_fini;
int       g_thr_init_fail_at; /* nni_thr_init call number that fails (<0: none) */
int       g_thr_init_rv;

/* --- expire-loop units (TQ_WITH_AIO: real src/core/aio.c in the TU as well) --- */
nni_aio_expire_q *g_eq;   /* the expire queue */
nni_cv   *g_cv_eq;        /* its condition variable */
size_t    g_wk_eq;        /* wake-ups on it */
nni_aio  *g_a0, *g_a1;    /* the aios on its list at entry, in list order */
size_t    g_na;           /* how many of them are listed */
nni_time  g_now;          /* last value handed out by nni_clock (strictly increasing) */
size_t    g_fire_n[2];    /* calls of the provider cancel function per aio */
int       g_fire_rv[2];   /* code of the last one */
void     *g_fire_arg[2];  /* argument of the last one */
size_t    g_left[2];      /* aio still listed when the thread went to sleep (left to its provider) */
bool      g_ok0[2];       /* a_expire_ok of the operation in flight at entry */
bool      g_cancel_finishes; /* provider cancel function completes the aio with the code given (REAL nni_aio_finish_error) */
bool      g_race;         /* while the lock is dropped for g_a0's cancel call: g_a1 completes normally and is started again */
bool      g_race_done;
nng_duration g_race_timeout; /* timeout of the operation started in the race */
bool      g_in_cancel;    /* inside the provider cancel function */
size_t    g_passes;       /* completed scan passes of the expire thread */
size_t    g_eq_sleeps;    /* nni_cv_until calls on the expire cv */
uint32_t  g_random;
size_t    g_reaped;
#endif
