#define VP_CNT(x) do { x = nondet_size_t(); __CPROVER_assume(x < ((size_t) 1 << 40)); } while (0)
#define VP_HAVOC_GHOSTS()                                                      \
	do {                                                                       \
		VP_CNT(g_cb_calls); g_cb_pid = nondet_u32(); g_cb_ev = nondet_int();   \
		g_cb_arg = nondet_ptr(); g_cbs_mtx = nondet_ptr();                     \
		VP_CNT(g_sleep_calls); g_sleep_ms = nondet_int();                      \
		g_sleep_aio = nondet_ptr(); g_random = nondet_u32();                   \
		VP_CNT(g_accept_calls); g_accept_data = nondet_ptr(); g_accept_aio = nondet_ptr(); \
		VP_CNT(g_bind_calls); g_bind_rv = nondet_int();                        \
		VP_CNT(g_connect_calls); g_connect_data = nondet_ptr(); g_connect_aio = nondet_ptr(); \
		g_con_busy = nondet_bool(); VP_CNT(g_connect_at_sleep);                \
		VP_CNT(g_seq); VP_CNT(g_epclose_calls); VP_CNT(g_epclose_seq); g_epclose_data = nondet_ptr(); \
		VP_CNT(g_epstop_calls); VP_CNT(g_epstop_seq); g_epstop_data = nondet_ptr(); \
		VP_CNT(g_aiostop_calls); VP_CNT(g_aiostop_seq_a); VP_CNT(g_aiostop_seq_b); \
		g_aio_a = nondet_ptr(); g_aio_b = nondet_ptr();                        \
		VP_CNT(g_fin_calls); g_fin_aio = nondet_ptr(); g_fin_rv = nondet_int(); g_fin_count = nondet_size_t(); \
		VP_CNT(g_aiostart_calls); g_aiostart_aio = nondet_ptr();               \
		VP_CNT(g_aioinit_calls); VP_CNT(g_aiofini_calls); VP_CNT(g_aiowait_calls); \
		g_aiowait_aio = nondet_ptr(); g_wait_result = nondet_int();            \
		VP_CNT(g_pstart_calls); g_pstart_data = nondet_ptr(); g_pstart_rv = nondet_int(); VP_CNT(g_pstart_at_cb); \
		VP_CNT(g_pclose_calls); g_pclose_data = nondet_ptr(); VP_CNT(g_pclose_at_cb); \
		VP_CNT(g_pstop_calls); VP_CNT(g_pstop_at_cb);                          \
		VP_CNT(g_tclose_calls); g_tclose_data = nondet_ptr(); VP_CNT(g_tclose_at_cb); \
		VP_CNT(g_tstop_calls); VP_CNT(g_tstop_at_cb);                          \
		VP_CNT(g_reap_calls); g_reap_list = nondet_ptr(); g_reap_item = nondet_ptr(); \
		VP_CNT(g_rele_calls); g_rele_rc = nondet_ptr(); VP_CNT(g_rele_at_cb); VP_CNT(g_hold_calls); \
		VP_CNT(g_wake_calls); g_wake_cv = nondet_ptr(); VP_CNT(g_wake_at_cb);  \
		VP_CNT(g_idrm_calls); g_idrm_id = nondet_u64(); VP_CNT(g_idrm_at_cb);  \
		g_env_closes = nondet_bool(); VP_CNT(g_env_closed); g_log_level = nondet_int(); \
		g_mp1 = nondet_ptr(); g_mp2 = nondet_ptr(); g_owned = nondet_bool(); g_sole_a = nondet_bool(); g_sole_b = nondet_bool(); \
		VP_HAVOC_SYNC();                                                       \
	} while (0)
void h_pipe_close(void) { nni_pipe *p; VP_HAVOC_GHOSTS(); nni_pipe_close(p); VP_CANARY(); }
void h_listener_start_pipe(void) { nni_listener *l; nni_pipe *p; VP_HAVOC_GHOSTS(); listener_start_pipe(l, p); VP_CANARY(); }
void h_dialer_start_pipe(void) { nni_dialer *d; nni_pipe *p; VP_HAVOC_GHOSTS(); dialer_start_pipe(d, p); VP_CANARY(); }
void h_pipe_start(void) { nni_pipe *p; VP_HAVOC_GHOSTS(); nni_pipe_start(p); VP_CANARY(); }
void h_pipe_remove(void) { nni_pipe *p; VP_HAVOC_GHOSTS(); nni_pipe_remove(p); VP_CANARY(); }
void h_pipe_reap(void) { void *arg; VP_HAVOC_GHOSTS(); pipe_reap(arg); VP_CANARY(); }
void h_listener_accept_start(void) { nni_listener *l; VP_HAVOC_GHOSTS(); listener_accept_start(l); VP_CANARY(); }
void h_listener_timer_cb(void) { void *arg; VP_HAVOC_GHOSTS(); listener_timer_cb(arg); VP_CANARY(); }
void h_listener_accept_cb(void) { void *arg; VP_HAVOC_GHOSTS(); listener_accept_cb(arg); VP_CANARY(); }
void h_listener_start(void) { nni_listener *l; int flags; VP_HAVOC_GHOSTS(); nni_listener_start(l, flags); VP_CANARY(); }
void h_listener_stop(void) { nni_listener *l; VP_HAVOC_GHOSTS(); nni_listener_stop(l); VP_CANARY(); }
void h_dialer_connect_start(void) { nni_dialer *d; VP_HAVOC_GHOSTS(); dialer_connect_start(d); VP_CANARY(); }
void h_dialer_timer_cb(void) { void *arg; VP_HAVOC_GHOSTS(); dialer_timer_cb(arg); VP_CANARY(); }
void h_dialer_connect_cb(void) { void *arg; VP_HAVOC_GHOSTS(); dialer_connect_cb(arg); VP_CANARY(); }
void h_dialer_start_aio(void) { nni_dialer *d; unsigned flags; nni_aio *aiop; VP_HAVOC_GHOSTS(); nni_dialer_start_aio(d, flags, aiop); VP_CANARY(); }
void h_dialer_start(void) { nni_dialer *d; unsigned flags; VP_HAVOC_GHOSTS(); nni_dialer_start(d, flags); VP_CANARY(); }
void h_dialer_stop(void) { nni_dialer *d; VP_HAVOC_GHOSTS(); nni_dialer_stop(d); VP_CANARY(); }
void h_listener_shutdown(void) { nni_listener *l; VP_HAVOC_GHOSTS(); nni_listener_shutdown(l); VP_CANARY(); }
void h_dialer_shutdown(void) { nni_dialer *d; VP_HAVOC_GHOSTS(); nni_dialer_shutdown(d); VP_CANARY(); }
