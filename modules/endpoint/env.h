/* Environment of the endpoint module (ASSUMED models; ghost accounting only).
 * modules/pipecb/env.h (included before this file) supplies the application
 * callback vp_pipe_cb, nni_random and nni_sleep_aio. */
#ifndef VP_ENDPOINT_ENV_H
#define VP_ENDPOINT_ENV_H

/* ---- atomics: one bool each (sequential model) ---- */
bool nni_atomic_flag_test_and_set(nni_atomic_flag *f) { bool o = EP_FLAG(*f); EP_FLAG(*f) = true; return (o); }
void nni_atomic_flag_reset(nni_atomic_flag *f) { EP_FLAG(*f) = false; }
void nni_atomic_init_bool(nni_atomic_bool *b) { EP_FLAG(*b) = false; }
void nni_atomic_set_bool(nni_atomic_bool *b, bool v) { EP_FLAG(*b) = v; }
bool nni_atomic_swap_bool(nni_atomic_bool *b, bool v) { bool o = EP_FLAG(*b); EP_FLAG(*b) = v; return (o); }
/* reading the pipe's closed flag: the application's ADD_PRE callback (whose
 * call is replaced by the contract of nni_pipe_run_cb) or another thread may
 * have closed the pipe since the last look -- the flag is monotone and may be
 * found set at any read (g_env_closes arbitrary) */
bool
nni_atomic_get_bool(nni_atomic_bool *b)
{
	if (!EP_FLAG(*b) && g_env_closes) {
		EP_FLAG(*b) = true;
		g_env_closed++;
	}
	return (EP_FLAG(*b));
}

/* ---- aio framework (the real functions are under contract in modules/aiocore) ---- */
nng_err nni_aio_result(nni_aio *aio) { return (aio->a_result); }
void   *nni_aio_get_output(nni_aio *aio, unsigned i) { return (i < 4 ? aio->a_outputs[i] : NULL); }
void
nni_aio_finish(nni_aio *aio, nng_err rv, size_t count)
{
	g_fin_calls++;
	g_fin_aio   = aio;
	g_fin_rv    = (int) rv;
	g_fin_count = count;
}
void nni_aio_init(nni_aio *aio, nni_cb cb, void *arg) { (void) aio; (void) cb; (void) arg; g_aioinit_calls++; }
void nni_aio_fini(nni_aio *aio) { (void) aio; g_aiofini_calls++; }
bool
nni_aio_start(nni_aio *aio, nni_aio_cancel_fn fn, void *arg)
{
	(void) fn; (void) arg;
	g_aiostart_calls++;
	g_aiostart_aio = aio;
	return (true);
}
/* waiting: sequential model -- on return the aio is complete with an arbitrary result */
void
nni_aio_wait(nni_aio *aio)
{
	g_aiowait_calls++;
	g_aiowait_aio = aio;
	aio->a_result = (nng_err) g_wait_result;
}
void
nni_aio_stop(nni_aio *aio)
{
	g_aiostop_calls++;
	g_seq++;
	if (aio == g_aio_a) {
		g_aiostop_seq_a = g_seq;
	} else if (aio == g_aio_b) {
		g_aiostop_seq_b = g_seq;
	}
}

/* ---- transport endpoint ops ---- */
static void
vp_l_accept(void *data, nni_aio *aio)
{
	g_accept_calls++;
	g_accept_data = data;
	g_accept_aio  = aio;
}
static nng_err
vp_l_bind(void *data, nng_url *url)
{
	(void) data; (void) url;
	g_bind_calls++;
	return ((nng_err) g_bind_rv);
}
static void
vp_d_connect(void *data, nni_aio *aio)
{
	__CPROVER_assert(!g_con_busy, "at most one connect outstanding per dialer");
	g_con_busy = true;
	g_connect_calls++;
	g_connect_data     = data;
	g_connect_aio      = aio;
	g_connect_at_sleep = g_sleep_calls;
}
static void vp_ep_close(void *data) { g_epclose_calls++; g_seq++; g_epclose_seq = g_seq; g_epclose_data = data; }
static void vp_ep_stop(void *data) { g_epstop_calls++; g_seq++; g_epstop_seq = g_seq; g_epstop_data = data; }
void (*vp_l_accept_ref)(void *, nni_aio *)   = vp_l_accept;
nng_err (*vp_l_bind_ref)(void *, nng_url *)  = vp_l_bind;
void (*vp_d_connect_ref)(void *, nni_aio *)  = vp_d_connect;
void (*vp_ep_close_ref)(void *)              = vp_ep_close;
void (*vp_ep_stop_ref)(void *)               = vp_ep_stop;

/* ---- protocol / transport pipe ops ---- */
static int
vp_proto_pipe_start(void *data)
{
	g_pstart_calls++;
	g_pstart_data  = data;
	g_pstart_at_cb = g_cb_calls;
	return (g_pstart_rv);
}
static void vp_proto_pipe_close(void *data) { g_pclose_calls++; g_pclose_data = data; g_pclose_at_cb = g_cb_calls; }
static void vp_proto_pipe_stop(void *data) { (void) data; g_pstop_calls++; g_pstop_at_cb = g_cb_calls; }
static void vp_tran_pipe_close(void *data) { g_tclose_calls++; g_tclose_data = data; g_tclose_at_cb = g_cb_calls; }
static void vp_tran_pipe_stop(void *data) { (void) data; g_tstop_calls++; g_tstop_at_cb = g_cb_calls; }
static nng_sockaddr        vp_sockaddr;
static const nng_sockaddr *vp_tran_pipe_addr(void *data) { (void) data; return (&vp_sockaddr); }
int (*vp_proto_pipe_start_ref)(void *)              = vp_proto_pipe_start;
void (*vp_proto_pipe_close_ref)(void *)             = vp_proto_pipe_close;
void (*vp_proto_pipe_stop_ref)(void *)              = vp_proto_pipe_stop;
void (*vp_tran_pipe_close_ref)(void *)              = vp_tran_pipe_close;
void (*vp_tran_pipe_stop_ref)(void *)               = vp_tran_pipe_stop;
const nng_sockaddr *(*vp_tran_pipe_addr_ref)(void *) = vp_tran_pipe_addr;

/* ---- reap, reference count, condition variable, id map ---- */
void
nni_reap(nni_reap_list *rl, void *item)
{
	g_reap_calls++;
	g_reap_list = rl;
	g_reap_item = item;
}
void nni_refcnt_rele(nni_refcnt *rc) { g_rele_calls++; g_rele_rc = rc; g_rele_at_cb = g_cb_calls; }
void nni_refcnt_hold(nni_refcnt *rc) { (void) rc; g_hold_calls++; }
void nni_cv_wake(nni_cv *cv) { g_wake_calls++; g_wake_cv = cv; g_wake_at_cb = g_cb_calls; }
int
nni_id_remove(nni_id_map *m, uint64_t id)
{
	(void) m;
	g_idrm_calls++;
	g_idrm_id    = id;
	g_idrm_at_cb = g_cb_calls;
	return (0);
}

/* ---- statistics and logging: no effect on the modelled state ---- */
void nni_stat_inc(nni_stat_item *s, uint64_t n) { (void) s; (void) n; }
void nni_stat_dec(nni_stat_item *s, uint64_t n) { (void) s; (void) n; }
void nni_stat_set_id(nni_stat_item *s, int id) { (void) s; (void) id; }
void nni_stat_register(nni_stat_item *s) { (void) s; }
void nni_stat_unregister(nni_stat_item *s) { (void) s; }
nng_log_level nng_log_get_level(void) { return ((nng_log_level) g_log_level); }
void nng_log_debug(const char *id, const char *fmt, ...) { (void) id; (void) fmt; }
void nng_log_info(const char *id, const char *fmt, ...) { (void) id; (void) fmt; }
void nng_log_warn(const char *id, const char *fmt, ...) { (void) id; (void) fmt; }
const char *nng_strerror(nng_err e) { (void) e; return ("error"); }
const char *nng_str_sockaddr(const nng_sockaddr *sa, char *buf, size_t sz) { (void) sa; (void) sz; return (buf); }
int nng_url_sprintf(char *buf, size_t sz, const nng_url *url) { (void) buf; (void) sz; (void) url; return (nondet_int()); }
#endif
