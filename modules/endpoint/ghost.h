/* Ghost state of the endpoint module (listener.c / dialer.c callbacks, pipe
 * lifecycle steps of socket.c / pipe.c).  The ghosts of modules/pipecb
 * (application callback, back-off timer, random) are reused unchanged: they
 * are declared in modules/pipecb/ghost.h, included before this file. */
#ifndef VP_ENDPOINT_GHOST_H
#define VP_ENDPOINT_GHOST_H
#include "core/nng_impl.h"
/* ---- transport endpoint ops (model functions vp_l_*, vp_d_*) ---- */
size_t   g_accept_calls;  /* calls of l_ops.l_accept */
void    *g_accept_data;   /* transport data handed to the last l_accept */
nni_aio *g_accept_aio;    /* aio handed to the last l_accept */
size_t   g_bind_calls;    /* calls of l_ops.l_bind */
int      g_bind_rv;       /* answer of l_bind (arbitrary) */
size_t   g_connect_calls; /* calls of d_ops.d_connect */
void    *g_connect_data;
nni_aio *g_connect_aio;
bool     g_con_busy;      /* a connect is outstanding (set by the d_connect model; the aio
                             framework clears it before the completion callback runs) */
size_t   g_connect_at_sleep; /* value of g_sleep_calls when d_connect was last called */
/* endpoint shutdown sequence: every step gets the next sequence number */
size_t   g_seq;
size_t   g_epclose_calls, g_epclose_seq; void *g_epclose_data; /* l_close / d_close */
size_t   g_epstop_calls, g_epstop_seq;   void *g_epstop_data;  /* l_stop / d_stop */
size_t   g_aiostop_calls;                                      /* nni_aio_stop */
size_t   g_aiostop_seq_a, g_aiostop_seq_b;                     /* seq of the stop of g_aio_a / g_aio_b */
nni_aio *g_aio_a, *g_aio_b;                                    /* the two endpoint aios (bound in requires) */
/* ---- aio framework ---- */
size_t   g_fin_calls;     /* calls of nni_aio_finish */
nni_aio *g_fin_aio;
int      g_fin_rv;
size_t   g_fin_count;
size_t   g_aiostart_calls; nni_aio *g_aiostart_aio;  /* nni_aio_start */
size_t   g_aioinit_calls, g_aiofini_calls, g_aiowait_calls;
nni_aio *g_aiowait_aio;
int      g_wait_result;   /* result the waited-for aio ends with (arbitrary) */
/* ---- protocol / transport pipe ops (model functions) ---- */
size_t   g_pstart_calls;  /* protocol pipe_start */
void    *g_pstart_data;
int      g_pstart_rv;     /* its answer (arbitrary) */
size_t   g_pstart_at_cb;  /* value of g_cb_calls when pipe_start ran */
size_t   g_pclose_calls;  /* protocol pipe_close */
void    *g_pclose_data;
size_t   g_pclose_at_cb;
size_t   g_pstop_calls;   /* protocol pipe_stop */
size_t   g_pstop_at_cb;
size_t   g_tclose_calls;  /* transport p_close */
void    *g_tclose_data;
size_t   g_tclose_at_cb;
size_t   g_tstop_calls;   /* transport p_stop */
size_t   g_tstop_at_cb;
/* ---- reap / refcount / wake / id map ---- */
size_t         g_reap_calls;
nni_reap_list *g_reap_list;
void          *g_reap_item;
size_t         g_rele_calls;   /* nni_refcnt_rele */
nni_refcnt    *g_rele_rc;
size_t         g_rele_at_cb;
size_t         g_hold_calls;
size_t         g_wake_calls;   /* nni_cv_wake */
nni_cv        *g_wake_cv;
size_t         g_wake_at_cb;   /* value of g_cb_calls when the socket's waiters were woken */
size_t         g_idrm_calls;   /* nni_id_remove */
uint64_t       g_idrm_id;
size_t         g_idrm_at_cb;
/* ---- environment interference on the pipe's closed flag ---- */
bool     g_env_closes;    /* the application callback / another thread closes the pipe before the next read of p_closed */
size_t   g_env_closed;    /* number of such closes observed */
int      g_log_level;
/* free ghosts of the removal path (see contracts.h) */
bool     g_owned;         /* pre-state: the dialer's current pipe is the pipe being removed */
bool     g_sole_a, g_sole_b; /* list shape selectors: the pipe is the only member of the socket's / endpoint's list */     /* answer of nng_log_get_level */
nni_pipe *g_mp1, *g_mp2;     /* member pipes of the endpoint's pipe list (shutdown units) */
#endif
