/* Spec macros of the endpoint module (C14).  No code. */
#ifndef VP_ENDPOINT_SPEC_H
#define VP_ENDPOINT_SPEC_H
/* value of an nni_atomic_flag / nni_atomic_bool (modelled as one bool) */
#define EP_FLAG(f) (*(bool *) &(f))
#define EP_PCLOSED(p) EP_FLAG((p)->p_closed)
/* accept results after which the listener must re-arm accept at once */
#define EP_ACC_TRANSIENT(rv) ((rv) == NNG_ECONNABORTED || (rv) == NNG_ECONNRESET || (rv) == NNG_ETIMEDOUT || (rv) == NNG_EPEERAUTH)
/* results that mean the endpoint (or its aio) was closed / stopped / cancelled */
#define EP_END(rv) ((rv) == NNG_ECLOSED || (rv) == NNG_ESTOPPED || (rv) == NNG_ECANCELED)
#define EP_MAX(a, b) ((a) > (b) ? (a) : (b))
/* dialer back-off invariant: the configured reconnect times are within the
 * bound stated in modules/pipecb (INT32_MAX/2 ms) and the current back-off
 * never exceeds the larger configured time */
#define EP_RT_CFG(d) ((d)->d_inirtime >= 0 && (d)->d_inirtime <= DIALER_RTIME_MAX && (d)->d_maxrtime <= DIALER_RTIME_MAX)
#define EP_RT_INV(d) (EP_RT_CFG(d) && (d)->d_currtime >= 0 && (d)->d_currtime <= EP_MAX((d)->d_inirtime, (d)->d_maxrtime))
#endif
