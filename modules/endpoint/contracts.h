/* Contracts of the endpoint module (C14): accept / connect completion
 * callbacks and timers of listener.c and dialer.c, and the pipe lifecycle
 * steps of socket.c / pipe.c that post pipe events.
 * The contracts of nni_pipe_run_cb, dialer_timer_start_locked and
 * nni_dialer_timer_start are those of modules/pipecb/contracts.h (included
 * before this file; proved there, used here by replacement).
 * Sequential: thread interleavings are not explored. */
#ifndef VP_ENDPOINT_CONTRACTS_H
#define VP_ENDPOINT_CONTRACTS_H
/* clang-format off */
/* reachability probes (non-vacuity of the postconditions): a unit run with
 * -DVP_COVER_<unit> turns the COVER clauses of the function it ENFORCES into
 * negated ensures, each of which must then FAIL.  Never active in normal runs,
 * never active for a replaced callee (it would be assumed there). */
#define COVER_ON(c) __CPROVER_ensures(!(c))
#ifdef VP_COVER_listener_timer_cb
#define COV_listener_timer_cb(c) COVER_ON(c)
#else
#define COV_listener_timer_cb(c)
#endif
#ifdef VP_COVER_listener_accept_cb
#define COV_listener_accept_cb(c) COVER_ON(c)
#else
#define COV_listener_accept_cb(c)
#endif
#ifdef VP_COVER_listener_start
#define COV_listener_start(c) COVER_ON(c)
#else
#define COV_listener_start(c)
#endif
#ifdef VP_COVER_dialer_timer_cb
#define COV_dialer_timer_cb(c) COVER_ON(c)
#else
#define COV_dialer_timer_cb(c)
#endif
#if defined(VP_COVER_dialer_connect_cb) || defined(VP_COVER_dialer_connect_cb_ok) || defined(VP_COVER_dialer_connect_cb_fail)
#define COV_dialer_connect_cb(c) COVER_ON(c)
#else
#define COV_dialer_connect_cb(c)
#endif
#ifdef VP_COVER_dialer_start_aio
#define COV_dialer_start_aio(c) COVER_ON(c)
#else
#define COV_dialer_start_aio(c)
#endif
#ifdef VP_COVER_dialer_start
#define COV_dialer_start(c) COVER_ON(c)
#else
#define COV_dialer_start(c)
#endif
#if defined(VP_COVER_listener_shutdown_0) || defined(VP_COVER_listener_shutdown_1) || defined(VP_COVER_listener_shutdown_2)
#define COV_listener_shutdown(c) COVER_ON(c)
#else
#define COV_listener_shutdown(c)
#endif
#if defined(VP_COVER_dialer_shutdown_0) || defined(VP_COVER_dialer_shutdown_1) || defined(VP_COVER_dialer_shutdown_2)
#define COV_dialer_shutdown(c) COVER_ON(c)
#else
#define COV_dialer_shutdown(c)
#endif
#ifdef VP_COVER_listener_start_pipe
#define COV_listener_start_pipe(c) COVER_ON(c)
#else
#define COV_listener_start_pipe(c)
#endif
#ifdef VP_COVER_dialer_start_pipe
#define COV_dialer_start_pipe(c) COVER_ON(c)
#else
#define COV_dialer_start_pipe(c)
#endif
#ifdef VP_COVER_pipe_start
#define COV_pipe_start(c) COVER_ON(c)
#else
#define COV_pipe_start(c)
#endif
#ifdef VP_COVER_pipe_remove
#define COV_pipe_remove(c) COVER_ON(c)
#else
#define COV_pipe_remove(c)
#endif
#ifdef VP_COVER_pipe_reap
#define COV_pipe_reap(c) COVER_ON(c)
#else
#define COV_pipe_reap(c)
#endif
#define FRESH(p, T) __CPROVER_is_fresh(p, sizeof(T))
#define ALIAS(target, ptr) __CPROVER_pointer_in_range_dfcc(target, ptr, target)
#define SOCKT struct nni_socket

/* ghost groups (assigns clauses) */
#define G_CB      g_cb_calls, g_cb_pid, g_cb_ev, g_cb_arg
#define G_SLEEP   g_sleep_calls, g_sleep_ms, g_sleep_aio
#define G_ACCEPT  g_accept_calls, g_accept_data, g_accept_aio
#define G_CONNECT g_connect_calls, g_connect_data, g_connect_aio, g_con_busy, g_connect_at_sleep
#define G_PSTART  g_pstart_calls, g_pstart_data, g_pstart_at_cb
#define G_REAP    g_reap_calls, g_reap_list, g_reap_item
#define G_RELE    g_rele_calls, g_rele_rc, g_rele_at_cb
#define G_FIN     g_fin_calls, g_fin_aio, g_fin_rv, g_fin_count
#define G_WAKE    g_wake_calls, g_wake_cv, g_wake_at_cb
#define G_PIPEOPS g_pclose_calls, g_pclose_data, g_pclose_at_cb, g_tclose_calls, g_tclose_data, g_tclose_at_cb, g_pstop_calls, g_pstop_at_cb, g_tstop_calls, g_tstop_at_cb
#define G_IDRM    g_idrm_calls, g_idrm_id, g_idrm_at_cb

#define PIPE_OPS_OK(p) ((p)->p_proto_ops.pipe_start == vp_proto_pipe_start && (p)->p_proto_ops.pipe_close == vp_proto_pipe_close && (p)->p_proto_ops.pipe_stop == vp_proto_pipe_stop \
    && (p)->p_tran_ops.p_close == vp_tran_pipe_close && (p)->p_tran_ops.p_stop == vp_tran_pipe_stop && (p)->p_tran_ops.p_peer_addr == vp_tran_pipe_addr && (p)->p_tran_ops.p_self_addr == vp_tran_pipe_addr)
#define SOCK_CBS_OK(s) (CB_SLOT_OK(s, NNG_PIPE_EV_ADD_PRE) && CB_SLOT_OK(s, NNG_PIPE_EV_ADD_POST) && CB_SLOT_OK(s, NNG_PIPE_EV_REM_POST))
#define CBN(s, ev) ((s)->s_pipe_cbs[ev].cb_fn != NULL ? 1 : 0)
#define WANT(p) ((p)->p_sock->s_want_evs)

/* ------------------------------------------------------------------ pipe.c */
/* closing is idempotent: the first close marks the pipe closed and hands it to
 * the reaper exactly once, every later close does nothing */
void nni_pipe_close(nni_pipe *p)
__CPROVER_requires(FRESH(p, *p))
__CPROVER_assigns(p->p_closed, G_REAP)
__CPROVER_ensures(EP_PCLOSED(p))
__CPROVER_ensures(OLD(EP_PCLOSED(p)) ? g_reap_calls == OLD(g_reap_calls)
                                     : (g_reap_calls == OLD(g_reap_calls) + 1 && g_reap_item == p && g_reap_list == &pipe_reap_list))
;

/* ---------------------------------------------------------------- socket.c */
/* what dialer_start_pipe / listener_start_pipe / nni_pipe_start do with a new
 * pipe p (never started before: no event posted yet) */
#define EP_STARTED (g_pstart_calls == OLD(g_pstart_calls) + 1)
#define EP_START_OK (EP_STARTED && g_pstart_rv == 0)
#define START_PIPE_PRE(p) \
__CPROVER_requires(PIPE_OPS_OK(p) && SOCK_CBS_OK((p)->p_sock) && (p)->p_last_event == NNG_PIPE_EV_NONE) \
__CPROVER_requires(VP_NO_LOCK_HELD && g_cbs_mtx == &(p)->p_sock->s_pipe_cbs_mtx)
#define START_PIPE_ASSIGNS(p) (p)->p_last_event, (p)->p_closed, G_CB, G_PSTART, G_REAP, G_RELE, g_env_closed, VP_SYNC_GHOSTS
/* clauses without __CPROVER_old of a pipe field, guarded by c (so that callers whose pipe exists only when c holds can state them) */
#define START_PIPE_POST_C(c, p) \
__CPROVER_ensures((c) ==> (EP_STARTED || g_pstart_calls == OLD(g_pstart_calls))) \
__CPROVER_ensures(((c) && !EP_STARTED) ==> EP_PCLOSED(p)) \
/* a pipe found closed after ADD_PRE by the callback / another thread is never started */ \
__CPROVER_ensures(((c) && g_env_closed != OLD(g_env_closed)) ==> !EP_STARTED) \
/* the protocol's pipe_start runs after the ADD_PRE callback and before ADD_POST */ \
__CPROVER_ensures(((c) && EP_STARTED) ==> (g_pstart_data == (p)->p_proto_data && g_pstart_at_cb == OLD(g_cb_calls) + (WANT(p) ? CBN((p)->p_sock, NNG_PIPE_EV_ADD_PRE) : 0))) \
/* events: ADD_PRE always first; ADD_POST iff the pipe was not closed and the protocol accepted it */ \
__CPROVER_ensures(((c) && !WANT(p)) ==> ((p)->p_last_event == NNG_PIPE_EV_NONE && g_cb_calls == OLD(g_cb_calls))) \
__CPROVER_ensures(((c) && WANT(p)) ==> (p)->p_last_event == (EP_START_OK ? NNG_PIPE_EV_ADD_POST : NNG_PIPE_EV_ADD_PRE)) \
__CPROVER_ensures(((c) && WANT(p)) ==> g_cb_calls == OLD(g_cb_calls) + CBN((p)->p_sock, NNG_PIPE_EV_ADD_PRE) + (EP_START_OK ? CBN((p)->p_sock, NNG_PIPE_EV_ADD_POST) : 0)) \
/* rejected by the protocol: torn down (closed, handed to the reaper once) */ \
__CPROVER_ensures(((c) && EP_STARTED && g_pstart_rv != 0) ==> (EP_PCLOSED(p) && g_reap_calls == OLD(g_reap_calls) + 1 && g_reap_item == (p) && g_reap_list == &pipe_reap_list)) \
__CPROVER_ensures(((c) && !(EP_STARTED && g_pstart_rv != 0)) ==> g_reap_calls == OLD(g_reap_calls)) \
__CPROVER_ensures(((c) && EP_START_OK) ==> !EP_PCLOSED(p)) \
/* the creator's hold is dropped exactly once on every path */ \
__CPROVER_ensures((c) ==> (g_rele_calls == OLD(g_rele_calls) + 1 && g_rele_rc == &(p)->p_refcnt))
#define START_PIPE_POST(p) \
__CPROVER_ensures(VP_NO_LOCK_HELD) \
/* a pipe that was closed before ADD_PRE is never started: it carries no application messages */ \
__CPROVER_ensures(OLD(EP_PCLOSED(p)) ==> !EP_STARTED) \
START_PIPE_POST_C(1, p)

static void listener_start_pipe(nni_listener *l, nni_pipe *p)
__CPROVER_requires(FRESH(l, *l) && FRESH(p, *p) && FRESH(p->p_sock, SOCKT) && ALIAS(p->p_sock, l->l_sock))
START_PIPE_PRE(p)
__CPROVER_assigns(START_PIPE_ASSIGNS(p))
START_PIPE_POST(p)
COV_listener_start_pipe(EP_START_OK && WANT(p)) COV_listener_start_pipe(EP_STARTED && g_pstart_rv != 0) COV_listener_start_pipe(!EP_STARTED && g_env_closed != OLD(g_env_closed))
;

static void dialer_start_pipe(nni_dialer *d, nni_pipe *p)
__CPROVER_requires(FRESH(d, *d) && FRESH(p, *p) && FRESH(p->p_sock, SOCKT) && ALIAS(p->p_sock, d->d_sock))
START_PIPE_PRE(p)
/* the dialer owns no pipe while it connects */
__CPROVER_requires(d->d_pipe == NULL && EP_RT_CFG(d))
__CPROVER_assigns(START_PIPE_ASSIGNS(p), d->d_pipe, d->d_currtime)
START_PIPE_POST(p)
/* the new pipe is THE pipe of the dialer; the back-off restarts from the configured minimum */
__CPROVER_ensures(d->d_pipe == p && d->d_currtime == d->d_inirtime && EP_RT_INV(d))
COV_dialer_start_pipe(EP_START_OK && WANT(p)) COV_dialer_start_pipe(EP_STARTED && g_pstart_rv != 0) COV_dialer_start_pipe(!EP_STARTED && g_env_closed != OLD(g_env_closed))
;

/* nni_pipe_start: dispatch to the listener's / the dialer's start step (exactly one of the two is set) */
#define PD(p) ((p)->p_dialer)
void nni_pipe_start(nni_pipe *p)
__CPROVER_requires(FRESH(p, *p) && FRESH(p->p_sock, SOCKT))
__CPROVER_requires((p->p_listener != NULL)
    ? (p->p_dialer == NULL && FRESH(p->p_listener, nni_listener) && ALIAS(p->p_sock, p->p_listener->l_sock))
    : (FRESH(p->p_dialer, nni_dialer) && ALIAS(p->p_sock, p->p_dialer->d_sock) && p->p_dialer->d_pipe == NULL && EP_RT_CFG(p->p_dialer)))
START_PIPE_PRE(p)
__CPROVER_assigns(START_PIPE_ASSIGNS(p))
__CPROVER_assigns(p->p_dialer != NULL: p->p_dialer->d_pipe, p->p_dialer->d_currtime)
START_PIPE_POST(p)
__CPROVER_ensures(PD(p) != NULL ==> (PD(p)->d_currtime == PD(p)->d_inirtime && EP_RT_INV(PD(p)) && ALIAS(p, PD(p)->d_pipe)))
COV_pipe_start(PD(p) != NULL && EP_START_OK) COV_pipe_start(PD(p) == NULL && EP_START_OK)
;

/* list node of a pipe: not on a list, or linked between its two neighbours
 * (which are one and the same node -- the list head -- when the pipe is the
 * only member; `sole` is a free ghost choosing between the two shapes) */
#define NODE_PRE(n, sole) (((n).ln_next == NULL) ? ((n).ln_prev == NULL) \
    : (FRESH((n).ln_next, nni_list_node) && ((sole) ? ALIAS((n).ln_next, (n).ln_prev) : FRESH((n).ln_prev, nni_list_node))))
#define NODE_POST(n) ((n).ln_next == NULL && (n).ln_prev == NULL && \
    (OLD((n).ln_next) != NULL ==> (OLD((n).ln_prev)->ln_next == OLD((n).ln_next) && OLD((n).ln_next)->ln_prev == OLD((n).ln_prev))))
/* the removal path: the pipe leaves the socket's and the endpoint's list, the
 * socket's waiters (close) are woken, and the dialer that owned this pipe --
 * only that one -- starts its back-off timer to dial again */
#define REMOVE_PRE(p) \
__CPROVER_requires(FRESH(p, nni_pipe) && FRESH((p)->p_sock, SOCKT)) \
__CPROVER_requires((p)->p_listener == NULL || FRESH((p)->p_listener, nni_listener)) \
__CPROVER_requires((p)->p_dialer == NULL || (FRESH((p)->p_dialer, nni_dialer) && EP_RT_INV((p)->p_dialer))) \
/* g_owned: free ghost naming the pre-state fact "the dialer's current pipe is this pipe" */ \
__CPROVER_requires((p)->p_dialer != NULL ==> g_owned == ((p)->p_dialer->d_pipe == (p))) \
__CPROVER_requires(NODE_PRE((p)->p_sock_node, g_sole_a) && NODE_PRE((p)->p_ep_node, g_sole_b))
#define REMOVE_ASSIGNS(p) \
__CPROVER_assigns((p)->p_sock_node, (p)->p_ep_node, G_WAKE, G_SLEEP, VP_SYNC_GHOSTS) \
__CPROVER_assigns((p)->p_sock_node.ln_next != NULL: (p)->p_sock_node.ln_next->ln_prev, (p)->p_sock_node.ln_prev->ln_next) \
__CPROVER_assigns((p)->p_ep_node.ln_next != NULL: (p)->p_ep_node.ln_next->ln_prev, (p)->p_ep_node.ln_prev->ln_next) \
__CPROVER_assigns((p)->p_dialer != NULL && (p)->p_dialer->d_pipe == (p): (p)->p_dialer->d_pipe, (p)->p_dialer->d_currtime)
#define REDIAL(p) (PD(p) != NULL && g_owned)
#define REMOVE_POST(p) \
__CPROVER_ensures(NODE_POST((p)->p_sock_node) && NODE_POST((p)->p_ep_node)) \
__CPROVER_ensures(g_wake_calls == OLD(g_wake_calls) + 1 && g_wake_cv == &(p)->p_sock->s_cv && g_wake_at_cb == g_cb_calls) \
/* the dialer owns no pipe any more and dials again after a random delay below its current back-off, which never exceeds the larger configured reconnect time */ \
__CPROVER_ensures(REDIAL(p) ==> (PD(p)->d_pipe == NULL && g_sleep_calls == OLD(g_sleep_calls) + 1 && g_sleep_aio == &PD(p)->d_tmo_aio \
    && g_sleep_ms >= 0 && g_sleep_ms <= EP_MAX(PD(p)->d_inirtime, PD(p)->d_maxrtime) && EP_RT_INV(PD(p)))) \
/* a pipe that is not the dialer's current pipe (still negotiating, or a listener's) never triggers a dial */ \
__CPROVER_ensures(!REDIAL(p) ==> g_sleep_calls == OLD(g_sleep_calls))

void nni_pipe_remove(nni_pipe *p)
REMOVE_PRE(p)
__CPROVER_requires(VP_NO_LOCK_HELD)
REMOVE_ASSIGNS(p)
__CPROVER_ensures(VP_NO_LOCK_HELD)
REMOVE_POST(p)
COV_pipe_remove(REDIAL(p)) COV_pipe_remove(PD(p) != NULL && !g_owned) COV_pipe_remove(OLD(p->p_sock_node.ln_next) != NULL && g_sole_a) COV_pipe_remove(OLD(p->p_ep_node.ln_next) != NULL && !g_sole_b)
;

/* ------------------------------------------------------------------ pipe.c */
/* the reaper's step for a closed pipe: protocol and transport close, THEN the
 * REM_POST event (delivered once, and only to a pipe that had ADD_PRE), THEN
 * id removal, protocol/transport stop, removal from the socket (which wakes a
 * closing socket) and the drop of the reference taken at creation */
#define RP ((nni_pipe *) arg)
#define REM_DELIV (WANT(RP) && OLD(RP->p_last_event) != NNG_PIPE_EV_NONE && OLD(RP->p_last_event) < NNG_PIPE_EV_REM_POST)
void pipe_reap(void *arg)
REMOVE_PRE(RP)
__CPROVER_requires(PIPE_OPS_OK(RP) && SOCK_CBS_OK(RP->p_sock) && PIPE_LAST_OK(RP->p_last_event))
__CPROVER_requires(VP_NO_LOCK_HELD && g_cbs_mtx == &RP->p_sock->s_pipe_cbs_mtx)
REMOVE_ASSIGNS(RP)
__CPROVER_assigns(RP->p_last_event, G_CB, G_PIPEOPS, G_IDRM, G_RELE)
__CPROVER_ensures(VP_NO_LOCK_HELD)
/* REM_POST exactly once, only after ADD_PRE */
__CPROVER_ensures(REM_DELIV ==> (RP->p_last_event == NNG_PIPE_EV_REM_POST && g_cb_calls == OLD(g_cb_calls) + CBN(RP->p_sock, NNG_PIPE_EV_REM_POST)))
__CPROVER_ensures((REM_DELIV && CBN(RP->p_sock, NNG_PIPE_EV_REM_POST)) ==> (g_cb_ev == NNG_PIPE_EV_REM_POST && g_cb_pid == RP->p_id))
__CPROVER_ensures(!REM_DELIV ==> (RP->p_last_event == OLD(RP->p_last_event) && g_cb_calls == OLD(g_cb_calls)))
/* protocol and transport were closed before the callback ran */
__CPROVER_ensures(g_pclose_calls == OLD(g_pclose_calls) + 1 && g_pclose_data == RP->p_proto_data && g_pclose_at_cb == OLD(g_cb_calls))
__CPROVER_ensures(g_tclose_calls == OLD(g_tclose_calls) + 1 && g_tclose_data == RP->p_tran_data && g_tclose_at_cb == OLD(g_cb_calls))
/* everything else after it: in particular the pipe leaves the socket's list (what nni_sock_close waits for) only after REM_POST was delivered */
__CPROVER_ensures(g_pstop_calls == OLD(g_pstop_calls) + 1 && g_pstop_at_cb == g_cb_calls && g_tstop_calls == OLD(g_tstop_calls) + 1 && g_tstop_at_cb == g_cb_calls)
__CPROVER_ensures(RP->p_id != 0 ? (g_idrm_calls == OLD(g_idrm_calls) + 1 && g_idrm_id == RP->p_id && g_idrm_at_cb == g_cb_calls) : g_idrm_calls == OLD(g_idrm_calls))
__CPROVER_ensures(g_rele_calls == OLD(g_rele_calls) + 1 && g_rele_rc == &RP->p_refcnt && g_rele_at_cb == g_cb_calls)
REMOVE_POST(RP)
COV_pipe_reap(REM_DELIV && CBN(RP->p_sock, NNG_PIPE_EV_REM_POST)) COV_pipe_reap(!REM_DELIV && WANT(RP)) COV_pipe_reap(REDIAL(RP))
;

/* -------------------------------------------------------------- listener.c */
#define LL ((nni_listener *) arg)
#define LP ((nni_pipe *) LL->l_acc_aio.a_outputs[0])
#define LR (LL->l_acc_aio.a_result)
#define L_OPS_OK(l) ((l)->l_ops.l_accept == vp_l_accept && (l)->l_ops.l_bind == vp_l_bind && (l)->l_ops.l_close == vp_ep_close && (l)->l_ops.l_stop == vp_ep_stop)
#define ACCEPT_ARMED(l) (g_accept_calls == OLD(g_accept_calls) + 1 && g_accept_aio == &(l)->l_acc_aio && g_accept_data == (l)->l_data)
#define ACCEPT_SAME (g_accept_calls == OLD(g_accept_calls))
#define SLEEP_SAME (g_sleep_calls == OLD(g_sleep_calls))

/* exactly one accept is handed to the transport, on the listener's accept aio */
static void listener_accept_start(nni_listener *l)
__CPROVER_requires(FRESH(l, *l) && L_OPS_OK(l))
__CPROVER_assigns(G_ACCEPT)
__CPROVER_ensures(ACCEPT_ARMED(l))
;

/* cool-down timer: accept is re-armed unless the timer was stopped / cancelled */
static void listener_timer_cb(void *arg)
__CPROVER_requires(FRESH(arg, nni_listener) && L_OPS_OK(LL))
__CPROVER_assigns(G_ACCEPT)
__CPROVER_ensures(LL->l_tmo_aio.a_result == 0 ? ACCEPT_ARMED(LL) : ACCEPT_SAME)
COV_listener_timer_cb(LL->l_tmo_aio.a_result == 0) COV_listener_timer_cb(LL->l_tmo_aio.a_result != 0)
;

/* accept completion.  C14: a listener keeps accepting whatever happens to
 * individual connections -- after every result other than closed / stopped /
 * cancelled, accept is armed again: at once, or (resource exhaustion and
 * unknown errors) after a 100 ms cool-down through the timer */
static void listener_accept_cb(void *arg)
__CPROVER_requires(FRESH(arg, nni_listener) && FRESH(LL->l_sock, SOCKT) && L_OPS_OK(LL) && VP_NO_LOCK_HELD)
__CPROVER_requires(LR == 0 ==> (FRESH(LL->l_acc_aio.a_outputs[0], nni_pipe) && ALIAS(LL->l_sock, LP->p_sock) && ALIAS(LL, LP->p_listener) && LP->p_dialer == NULL
    && PIPE_OPS_OK(LP) && SOCK_CBS_OK(LP->p_sock) && LP->p_last_event == NNG_PIPE_EV_NONE && g_cbs_mtx == &LP->p_sock->s_pipe_cbs_mtx))
__CPROVER_assigns(G_ACCEPT, G_SLEEP, G_CB, G_PSTART, G_REAP, G_RELE, g_env_closed, VP_SYNC_GHOSTS)
__CPROVER_assigns(LR == 0: LP->p_last_event, LP->p_closed)
__CPROVER_ensures(VP_NO_LOCK_HELD)
/* success: the new pipe goes through the socket's start step exactly once, accept re-armed at once */
__CPROVER_ensures(LR == 0 ==> (ACCEPT_ARMED(LL) && SLEEP_SAME))
START_PIPE_POST_C(LR == 0, LP)
/* failures concerning one connection: re-armed at once, no delay */
__CPROVER_ensures(EP_ACC_TRANSIENT(LR) ==> (ACCEPT_ARMED(LL) && SLEEP_SAME))
/* closed / stopped / cancelled: not re-armed */
__CPROVER_ensures(EP_END(LR) ==> (ACCEPT_SAME && SLEEP_SAME))
/* anything else (NNG_ENOMEM, NNG_ENOFILES, ...): re-armed after the cool-down */
__CPROVER_ensures((LR != 0 && !EP_ACC_TRANSIENT(LR) && !EP_END(LR)) ==> (ACCEPT_SAME && g_sleep_calls == OLD(g_sleep_calls) + 1 && g_sleep_ms == 100 && g_sleep_aio == &LL->l_tmo_aio))
/* no pipe activity without a new pipe */
__CPROVER_ensures(LR != 0 ==> (g_cb_calls == OLD(g_cb_calls) && g_pstart_calls == OLD(g_pstart_calls) && g_rele_calls == OLD(g_rele_calls) && g_reap_calls == OLD(g_reap_calls)))
/* top level: keeps accepting until closed */
__CPROVER_ensures(!EP_END(LR) ==> ((g_accept_calls == OLD(g_accept_calls) + 1) != (g_sleep_calls == OLD(g_sleep_calls) + 1)))
COV_listener_accept_cb(LR == 0 && EP_START_OK) COV_listener_accept_cb(LR == NNG_ECONNABORTED) COV_listener_accept_cb(LR == NNG_ENOMEM) COV_listener_accept_cb(LR == NNG_ECLOSED)
;

/* starting: refuses a second start; a bind failure leaves the listener startable again and arms nothing; success arms exactly one accept */
int nni_listener_start(nni_listener *l, int flags)
__CPROVER_requires(FRESH(l, *l) && FRESH(l->l_sock, SOCKT) && L_OPS_OK(l))
__CPROVER_assigns(l->l_started, G_ACCEPT, g_bind_calls)
__CPROVER_ensures(OLD(EP_FLAG(l->l_started)) ==> (RV == NNG_ESTATE && EP_FLAG(l->l_started) && ACCEPT_SAME && g_bind_calls == OLD(g_bind_calls)))
__CPROVER_ensures((!OLD(EP_FLAG(l->l_started)) && g_bind_rv != 0) ==> (RV == g_bind_rv && !EP_FLAG(l->l_started) && ACCEPT_SAME && g_bind_calls == OLD(g_bind_calls) + 1))
__CPROVER_ensures((!OLD(EP_FLAG(l->l_started)) && g_bind_rv == 0) ==> (RV == 0 && EP_FLAG(l->l_started) && ACCEPT_ARMED(l) && g_bind_calls == OLD(g_bind_calls) + 1))
COV_listener_start(RV == 0) COV_listener_start(RV == NNG_ESTATE) COV_listener_start(RV == NNG_EADDRINUSE)
;

/* stopping: transport closed first (aborts a pending accept), then both aios
 * stopped (their callbacks have run and nothing new can be started on them),
 * then the transport's stop -- in this order */
#define STOP_POST_C(c, data) \
__CPROVER_ensures((c) ==> (g_epclose_calls == OLD(g_epclose_calls) + 1 && g_epclose_data == (data) && g_epstop_calls == OLD(g_epstop_calls) + 1 && g_epstop_data == (data) && g_aiostop_calls == OLD(g_aiostop_calls) + 2)) \
__CPROVER_ensures((c) ==> (g_seq == OLD(g_seq) + 4 && g_epclose_seq == OLD(g_seq) + 1 && g_aiostop_seq_a == OLD(g_seq) + 2 && g_aiostop_seq_b == OLD(g_seq) + 3 && g_epstop_seq == OLD(g_seq) + 4))
#define STOP_POST(data) STOP_POST_C(1, data)
#define G_STOP g_seq, g_epclose_calls, g_epclose_seq, g_epclose_data, g_epstop_calls, g_epstop_seq, g_epstop_data, g_aiostop_calls, g_aiostop_seq_a, g_aiostop_seq_b
void nni_listener_stop(nni_listener *l)
__CPROVER_requires(FRESH(l, *l) && L_OPS_OK(l) && g_aio_a == &l->l_tmo_aio && g_aio_b == &l->l_acc_aio)
__CPROVER_assigns(G_STOP)
STOP_POST(l->l_data)
;

/* ---------------------------------------------------------------- dialer.c */
#define DD ((nni_dialer *) arg)
#define DP ((nni_pipe *) DD->d_con_aio.a_outputs[0])
#define DR (DD->d_con_aio.a_result)
#define D_OPS_OK(d) ((d)->d_ops.d_connect == vp_d_connect && (d)->d_ops.d_close == vp_ep_close && (d)->d_ops.d_stop == vp_ep_stop)
#define CONNECT_STARTED(d) (g_connect_calls == OLD(g_connect_calls) + 1 && g_connect_aio == &(d)->d_con_aio && g_connect_data == (d)->d_data && g_con_busy)
#define CONNECT_SAME (g_connect_calls == OLD(g_connect_calls) && g_con_busy == OLD(g_con_busy))

/* exactly one connect is handed to the transport; the transport model asserts
 * that no other connect of this dialer is outstanding */
static void dialer_connect_start(nni_dialer *d)
__CPROVER_requires(FRESH(d, *d) && D_OPS_OK(d) && !g_con_busy)
__CPROVER_assigns(G_CONNECT)
__CPROVER_ensures(CONNECT_STARTED(d) && g_connect_at_sleep == g_sleep_calls)
;

/* back-off timer expiry: dial again -- unless the timer was stopped / cancelled
 * (dialer or socket closing).  Runs only while the dialer owns no pipe and no
 * connect is outstanding */
static void dialer_timer_cb(void *arg)
__CPROVER_requires(FRESH(arg, nni_dialer) && D_OPS_OK(DD) && !g_con_busy && DD->d_pipe == NULL)
__CPROVER_assigns(G_CONNECT)
__CPROVER_ensures(DD->d_tmo_aio.a_result == 0 ? CONNECT_STARTED(DD) : CONNECT_SAME)
COV_dialer_timer_cb(DD->d_tmo_aio.a_result == 0) COV_dialer_timer_cb(DD->d_tmo_aio.a_result != 0)
;

/* connect completion */
#define DU OLD(DD->d_user_aio)
/* the same contract is checked in two runs that split on the connect result
 * (disjoint and exhaustive: EP_CC_OK: result 0, EP_CC_FAIL: result != 0) */
#if defined(EP_CC_OK)
#define CC_CASE (DR == 0)
#elif defined(EP_CC_FAIL)
#define CC_CASE (DR != 0)
#else
#define CC_CASE 1
#endif
static void dialer_connect_cb(void *arg)
__CPROVER_requires(FRESH(arg, nni_dialer) && FRESH(DD->d_sock, SOCKT) && D_OPS_OK(DD) && VP_NO_LOCK_HELD)
__CPROVER_requires(CC_CASE)
#ifdef EP_CC_PROBE /* reachability probe only (never in a registered unit): background dial refused */
__CPROVER_requires(DR == NNG_ECONNREFUSED && DD->d_user_aio == NULL)
#endif
__CPROVER_requires(DD->d_user_aio == NULL || FRESH(DD->d_user_aio, nni_aio))
/* the completed connect was the dialer's only activity: no pipe owned, nothing outstanding */
__CPROVER_requires(!g_con_busy && DD->d_pipe == NULL && EP_RT_INV(DD))
__CPROVER_requires(DR == 0 ==> (FRESH(DD->d_con_aio.a_outputs[0], nni_pipe) && ALIAS(DD->d_sock, DP->p_sock) && ALIAS(DD, DP->p_dialer) && DP->p_listener == NULL
    && PIPE_OPS_OK(DP) && SOCK_CBS_OK(DP->p_sock) && DP->p_last_event == NNG_PIPE_EV_NONE && g_cbs_mtx == &DP->p_sock->s_pipe_cbs_mtx))
__CPROVER_assigns(DD->d_user_aio, DD->d_started, DD->d_currtime, DD->d_pipe, G_FIN, G_SLEEP, G_CB, G_PSTART, G_REAP, G_RELE, g_env_closed, VP_SYNC_GHOSTS)
__CPROVER_assigns(DR == 0: DP->p_last_event, DP->p_closed)
__CPROVER_ensures(VP_NO_LOCK_HELD && CONNECT_SAME)
/* the user's synchronous dial aio is completed exactly once, with the connect result, and forgotten */
__CPROVER_ensures(DD->d_user_aio == NULL)
__CPROVER_ensures(DU != NULL ? (g_fin_calls == OLD(g_fin_calls) + 1 && g_fin_aio == DU && g_fin_rv == (int) DR && g_fin_count == 0) : g_fin_calls == OLD(g_fin_calls))
/* success: the pipe becomes THE pipe of the dialer and goes through the start step once; back-off reset; no timer */
__CPROVER_ensures(DR == 0 ==> (DD->d_pipe == DP && DD->d_currtime == DD->d_inirtime && SLEEP_SAME))
START_PIPE_POST_C(DR == 0, DP)
/* failure: no pipe */
__CPROVER_ensures(DR != 0 ==> (DD->d_pipe == NULL && g_cb_calls == OLD(g_cb_calls) && g_pstart_calls == OLD(g_pstart_calls) && g_rele_calls == OLD(g_rele_calls) && g_reap_calls == OLD(g_reap_calls)))
/* background dial failed (not closed): dials again after a random delay no longer than the larger configured reconnect time */
__CPROVER_ensures((DR != 0 && !EP_END(DR) && DU == NULL) ==> (g_sleep_calls == OLD(g_sleep_calls) + 1 && g_sleep_aio == &DD->d_tmo_aio && g_sleep_ms >= 0 && g_sleep_ms <= EP_MAX(DD->d_inirtime, DD->d_maxrtime)))
/* synchronous dial failed, or the dialer is closed / stopped / cancelled: NO redial */
__CPROVER_ensures((DR != 0 && (EP_END(DR) || DU != NULL)) ==> (SLEEP_SAME && DD->d_currtime == OLD(DD->d_currtime)))
/* a failed synchronous dial leaves the dialer startable again */
__CPROVER_ensures((DR != 0 && !EP_END(DR) && DU != NULL) ? !EP_FLAG(DD->d_started) : EP_FLAG(DD->d_started) == OLD(EP_FLAG(DD->d_started)))
/* the back-off invariant is kept; at most one of {pipe owned, timer started} afterwards */
__CPROVER_ensures(EP_RT_INV(DD) && !(DD->d_pipe != NULL && g_sleep_calls != OLD(g_sleep_calls)))
COV_dialer_connect_cb(DR == 0 && DU != NULL && EP_START_OK) COV_dialer_connect_cb(DR == NNG_ECONNREFUSED && DU == NULL) COV_dialer_connect_cb(DR == NNG_ECONNREFUSED && DU != NULL) COV_dialer_connect_cb(DR == NNG_ECLOSED)
;

/* starting a dialer: refuses a second start (nothing happens); otherwise exactly one connect, the user's aio (if any) remembered for the completion */
int nni_dialer_start_aio(nni_dialer *d, unsigned flags, nni_aio *aiop)
__CPROVER_requires(FRESH(d, *d) && FRESH(d->d_sock, SOCKT) && D_OPS_OK(d) && VP_NO_LOCK_HELD && (aiop == NULL || FRESH(aiop, nni_aio)))
/* a dialer that was never started has no connect outstanding */
__CPROVER_requires(!EP_FLAG(d->d_started) ==> !g_con_busy)
__CPROVER_assigns(d->d_started, d->d_user_aio, G_CONNECT, g_aiostart_calls, g_aiostart_aio, VP_SYNC_GHOSTS)
__CPROVER_ensures(VP_NO_LOCK_HELD && EP_FLAG(d->d_started))
__CPROVER_ensures(OLD(EP_FLAG(d->d_started)) ==> (RV == NNG_ESTATE && CONNECT_SAME && g_aiostart_calls == OLD(g_aiostart_calls) && d->d_user_aio == OLD(d->d_user_aio)))
__CPROVER_ensures(!OLD(EP_FLAG(d->d_started)) ==> (RV == 0 && CONNECT_STARTED(d) && d->d_user_aio == aiop))
__CPROVER_ensures((!OLD(EP_FLAG(d->d_started)) && aiop != NULL) ==> (g_aiostart_calls == OLD(g_aiostart_calls) + 1 && g_aiostart_aio == aiop))
COV_dialer_start_aio(RV == 0 && aiop != NULL) COV_dialer_start_aio(RV == NNG_ESTATE)
;

/* blocking / non-blocking start */
int nni_dialer_start(nni_dialer *d, unsigned flags)
__CPROVER_requires(FRESH(d, *d) && FRESH(d->d_sock, SOCKT) && D_OPS_OK(d) && VP_NO_LOCK_HELD)
__CPROVER_requires(!EP_FLAG(d->d_started) ==> !g_con_busy)
__CPROVER_assigns(d->d_started, d->d_user_aio, G_CONNECT, g_aiostart_calls, g_aiostart_aio, g_aioinit_calls, g_aiofini_calls, g_aiowait_calls, g_aiowait_aio, VP_SYNC_GHOSTS)
__CPROVER_ensures(VP_NO_LOCK_HELD && EP_FLAG(d->d_started))
__CPROVER_ensures(OLD(EP_FLAG(d->d_started)) ==> (RV == NNG_ESTATE && CONNECT_SAME && g_aiowait_calls == OLD(g_aiowait_calls)))
__CPROVER_ensures(!OLD(EP_FLAG(d->d_started)) ==> CONNECT_STARTED(d))
/* non-blocking: returns at once, the completion is nobody's business (background dial: failures are retried by the timer) */
__CPROVER_ensures((!OLD(EP_FLAG(d->d_started)) && (flags & NNG_FLAG_NONBLOCK) != 0) ==> (RV == 0 && d->d_user_aio == NULL && g_aiowait_calls == OLD(g_aiowait_calls) && g_aioinit_calls == OLD(g_aioinit_calls)))
/* blocking: waits for the connect completion and returns its result; the private aio is set up and torn down once */
__CPROVER_ensures((!OLD(EP_FLAG(d->d_started)) && (flags & NNG_FLAG_NONBLOCK) == 0) ==> (RV == g_wait_result && g_aiowait_calls == OLD(g_aiowait_calls) + 1 && g_aioinit_calls == OLD(g_aioinit_calls) + 1 && g_aiofini_calls == OLD(g_aiofini_calls) + 1 && g_aiostart_calls == OLD(g_aiostart_calls) + 1))
COV_dialer_start(RV == NNG_ECONNREFUSED) COV_dialer_start(RV == NNG_ESTATE) COV_dialer_start(RV == 0 && (flags & NNG_FLAG_NONBLOCK) != 0)
;

void nni_dialer_stop(nni_dialer *d)
__CPROVER_requires(FRESH(d, *d) && D_OPS_OK(d) && g_aio_a == &d->d_tmo_aio && g_aio_b == &d->d_con_aio)
__CPROVER_assigns(G_STOP)
STOP_POST(d->d_data)
;

/* ------------------------------------------- socket.c: endpoint shutdown */
/* the endpoint's pipe list with EP_NP members (g_mp1, g_mp2: the member pipes);
 * one unit per EP_NP in {0,1,2} -- the list length is the bound of these units */
#ifndef EP_NP
#define EP_NP 0
#endif
#define HEADP(list) (&(list).ll_head)
#if EP_NP == 0
#define EPLIST_PRE(list) ALIAS(HEADP(list), (list).ll_head.ln_next)
#define EPLIST_ASSIGNS
#define EPLIST_CLOSED 1
#define EPLIST_OPEN_BEFORE 0
#define EPLIST_SAME 1
#elif EP_NP == 1
#define EPLIST_PRE(list) (FRESH(g_mp1, nni_pipe) && ALIAS(&g_mp1->p_ep_node, (list).ll_head.ln_next) && ALIAS(HEADP(list), g_mp1->p_ep_node.ln_next))
#define EPLIST_ASSIGNS , g_mp1->p_closed
#define EPLIST_CLOSED EP_PCLOSED(g_mp1)
#define EPLIST_OPEN_BEFORE (OLD(EP_PCLOSED(g_mp1)) ? 0 : 1)
#define EPLIST_SAME (EP_PCLOSED(g_mp1) == OLD(EP_PCLOSED(g_mp1)))
#else
#define EPLIST_PRE(list) (FRESH(g_mp1, nni_pipe) && FRESH(g_mp2, nni_pipe) && ALIAS(&g_mp1->p_ep_node, (list).ll_head.ln_next) && ALIAS(&g_mp2->p_ep_node, g_mp1->p_ep_node.ln_next) && ALIAS(HEADP(list), g_mp2->p_ep_node.ln_next))
#define EPLIST_ASSIGNS , g_mp1->p_closed, g_mp2->p_closed
#define EPLIST_CLOSED (EP_PCLOSED(g_mp1) && EP_PCLOSED(g_mp2))
#define EPLIST_OPEN_BEFORE ((OLD(EP_PCLOSED(g_mp1)) ? 0 : 1) + (OLD(EP_PCLOSED(g_mp2)) ? 0 : 1))
#define EPLIST_SAME (EP_PCLOSED(g_mp1) == OLD(EP_PCLOSED(g_mp1)) && EP_PCLOSED(g_mp2) == OLD(EP_PCLOSED(g_mp2)))
#endif
/* shutting an endpoint down (first step of endpoint close and of socket
 * close): happens once; the transport endpoint and both aios are stopped (so
 * no accept / connect / timer can be started again), then EVERY pipe of the
 * endpoint is closed, i.e. handed to the reaper (which posts REM_POST) unless
 * it already was */
#define SHUTDOWN_POST(closing, data) \
__CPROVER_ensures(VP_NO_LOCK_HELD && EP_FLAG(closing)) \
__CPROVER_ensures(OLD(EP_FLAG(closing)) ==> (g_seq == OLD(g_seq) && g_reap_calls == OLD(g_reap_calls) && EPLIST_SAME)) \
STOP_POST_C(!OLD(EP_FLAG(closing)), data) \
__CPROVER_ensures(!OLD(EP_FLAG(closing)) ==> (EPLIST_CLOSED && g_reap_calls == OLD(g_reap_calls) + EPLIST_OPEN_BEFORE))

void nni_listener_shutdown(nni_listener *l)
__CPROVER_requires(FRESH(l, *l) && FRESH(l->l_sock, SOCKT) && L_OPS_OK(l) && g_aio_a == &l->l_tmo_aio && g_aio_b == &l->l_acc_aio && VP_NO_LOCK_HELD)
__CPROVER_requires(l->l_pipes.ll_offset == offsetof(nni_pipe, p_ep_node) && EPLIST_PRE(l->l_pipes))
__CPROVER_assigns(l->l_closing, G_STOP, G_REAP, VP_SYNC_GHOSTS EPLIST_ASSIGNS)
SHUTDOWN_POST(l->l_closing, l->l_data)
COV_listener_shutdown(!OLD(EP_FLAG(l->l_closing)) && g_reap_calls == OLD(g_reap_calls) + EP_NP) COV_listener_shutdown(OLD(EP_FLAG(l->l_closing)))
;

void nni_dialer_shutdown(nni_dialer *d)
__CPROVER_requires(FRESH(d, *d) && FRESH(d->d_sock, SOCKT) && D_OPS_OK(d) && g_aio_a == &d->d_tmo_aio && g_aio_b == &d->d_con_aio && VP_NO_LOCK_HELD)
__CPROVER_requires(d->d_pipes.ll_offset == offsetof(nni_pipe, p_ep_node) && EPLIST_PRE(d->d_pipes))
__CPROVER_assigns(d->d_closing, G_STOP, G_REAP, VP_SYNC_GHOSTS EPLIST_ASSIGNS)
SHUTDOWN_POST(d->d_closing, d->d_data)
COV_dialer_shutdown(!OLD(EP_FLAG(d->d_closing)) && g_reap_calls == OLD(g_reap_calls) + EP_NP) COV_dialer_shutdown(OLD(EP_FLAG(d->d_closing)))
;
/* clang-format on */
#endif
