/* Contracts of the endpoint module (C14): accept / connect completion
 * callbacks and timers of listener.c and dialer.c, and the pipe lifecycle
 * steps of socket.c / pipe.c that post pipe events.
 * The contracts of nni_pipe_run_cb, dialer_timer_start_locked and
 * nni_dialer_timer_start are those of modules/pipecb/contracts.h (included
 * before this file; proved there, used here by replacement).
 * Sequential: thread interleavings are not explored. */
#ifndef VP_ENDPOINT_CONTRACTS_H
#define VP_ENDPOINT_CONTRACTS_H
/* clang-format off */
#ifdef VP_COVER
#define COVER(c) __CPROVER_ensures(!(c))
#else
#define COVER(c)
#endif
#define FRESH(p, T) __CPROVER_is_fresh(p, sizeof(T))
#define ALIAS(target, ptr) __CPROVER_pointer_in_range_dfcc(target, ptr, target)
#define SOCKT struct nni_socket

/* ghost groups (assigns clauses) */
#define G_CB      g_cb_calls, g_cb_pid, g_cb_ev, g_cb_arg
#define G_SLEEP   g_sleep_calls, g_sleep_ms, g_sleep_aio
#define G_ACCEPT  g_accept_calls, g_accept_data, g_accept_aio
#define G_CONNECT g_connect_calls, g_connect_data, g_connect_aio, g_con_busy, g_connect_at_sleep
#define G_PSTART  g_pstart_calls, g_pstart_data, g_pstart_at_cb
#define G_REAP    g_reap_calls, g_reap_list, g_reap_item
#define G_RELE    g_rele_calls, g_rele_rc, g_rele_at_cb
#define G_FIN     g_fin_calls, g_fin_aio, g_fin_rv, g_fin_count
#define G_WAKE    g_wake_calls, g_wake_cv, g_wake_at_cb
#define G_PIPEOPS g_pclose_calls, g_pclose_data, g_pclose_at_cb, g_tclose_calls, g_tclose_data, g_tclose_at_cb, g_pstop_calls, g_pstop_at_cb, g_tstop_calls, g_tstop_at_cb
#define G_IDRM    g_idrm_calls, g_idrm_id, g_idrm_at_cb

#define PIPE_OPS_OK(p) ((p)->p_proto_ops.pipe_start == vp_proto_pipe_start && (p)->p_proto_ops.pipe_close == vp_proto_pipe_close && (p)->p_proto_ops.pipe_stop == vp_proto_pipe_stop \
    && (p)->p_tran_ops.p_close == vp_tran_pipe_close && (p)->p_tran_ops.p_stop == vp_tran_pipe_stop && (p)->p_tran_ops.p_peer_addr == vp_tran_pipe_addr && (p)->p_tran_ops.p_self_addr == vp_tran_pipe_addr)
#define SOCK_CBS_OK(s) (CB_SLOT_OK(s, NNG_PIPE_EV_ADD_PRE) && CB_SLOT_OK(s, NNG_PIPE_EV_ADD_POST) && CB_SLOT_OK(s, NNG_PIPE_EV_REM_POST))
#define CBN(s, ev) ((s)->s_pipe_cbs[ev].cb_fn != NULL ? 1 : 0)
#define WANT(p) ((p)->p_sock->s_want_evs)

/* ------------------------------------------------------------------ pipe.c */
/* closing is idempotent: the first close marks the pipe closed and hands it to
 * the reaper exactly once, every later close does nothing */
void nni_pipe_close(nni_pipe *p)
__CPROVER_requires(FRESH(p, *p))
__CPROVER_assigns(p->p_closed, G_REAP)
__CPROVER_ensures(EP_PCLOSED(p))
__CPROVER_ensures(OLD(EP_PCLOSED(p)) ? g_reap_calls == OLD(g_reap_calls)
                                     : (g_reap_calls == OLD(g_reap_calls) + 1 && g_reap_item == p && g_reap_list == &pipe_reap_list))
;

/* ---------------------------------------------------------------- socket.c */
/* what dialer_start_pipe / listener_start_pipe / nni_pipe_start do with a new
 * pipe p (never started before: no event posted yet) */
#define EP_STARTED (g_pstart_calls == OLD(g_pstart_calls) + 1)
#define EP_START_OK (EP_STARTED && g_pstart_rv == 0)
#define START_PIPE_PRE(p) \
__CPROVER_requires(PIPE_OPS_OK(p) && SOCK_CBS_OK((p)->p_sock) && (p)->p_last_event == NNG_PIPE_EV_NONE) \
__CPROVER_requires(VP_NO_LOCK_HELD && g_cbs_mtx == &(p)->p_sock->s_pipe_cbs_mtx)
#define START_PIPE_ASSIGNS(p) (p)->p_last_event, (p)->p_closed, G_CB, G_PSTART, G_REAP, G_RELE, g_env_closed, VP_SYNC_GHOSTS
#define START_PIPE_POST(p) \
__CPROVER_ensures(VP_NO_LOCK_HELD) \
__CPROVER_ensures(EP_STARTED || g_pstart_calls == OLD(g_pstart_calls)) \
/* a pipe found closed after ADD_PRE (closed before, or closed by the callback / another thread) is never started: it carries no application messages */ \
__CPROVER_ensures((OLD(EP_PCLOSED(p)) || g_env_closed != OLD(g_env_closed)) ==> !EP_STARTED) \
__CPROVER_ensures(!EP_STARTED ==> EP_PCLOSED(p)) \
/* the protocol's pipe_start runs after the ADD_PRE callback and before ADD_POST */ \
__CPROVER_ensures(EP_STARTED ==> (g_pstart_data == (p)->p_proto_data && g_pstart_at_cb == OLD(g_cb_calls) + (WANT(p) ? CBN((p)->p_sock, NNG_PIPE_EV_ADD_PRE) : 0))) \
/* events: ADD_PRE always first; ADD_POST iff the pipe was not closed and the protocol accepted it */ \
__CPROVER_ensures(!WANT(p) ==> ((p)->p_last_event == NNG_PIPE_EV_NONE && g_cb_calls == OLD(g_cb_calls))) \
__CPROVER_ensures(WANT(p) ==> (p)->p_last_event == (EP_START_OK ? NNG_PIPE_EV_ADD_POST : NNG_PIPE_EV_ADD_PRE)) \
__CPROVER_ensures(WANT(p) ==> g_cb_calls == OLD(g_cb_calls) + CBN((p)->p_sock, NNG_PIPE_EV_ADD_PRE) + (EP_START_OK ? CBN((p)->p_sock, NNG_PIPE_EV_ADD_POST) : 0)) \
/* rejected by the protocol: torn down (closed, handed to the reaper once) */ \
__CPROVER_ensures((EP_STARTED && g_pstart_rv != 0) ==> (EP_PCLOSED(p) && g_reap_calls == OLD(g_reap_calls) + 1 && g_reap_item == (p) && g_reap_list == &pipe_reap_list)) \
__CPROVER_ensures(!(EP_STARTED && g_pstart_rv != 0) ==> g_reap_calls == OLD(g_reap_calls)) \
__CPROVER_ensures(EP_START_OK ==> !EP_PCLOSED(p)) \
/* the creator's hold is dropped exactly once on every path */ \
__CPROVER_ensures(g_rele_calls == OLD(g_rele_calls) + 1 && g_rele_rc == &(p)->p_refcnt)

static void listener_start_pipe(nni_listener *l, nni_pipe *p)
__CPROVER_requires(FRESH(l, *l) && FRESH(p, *p) && FRESH(p->p_sock, SOCKT) && ALIAS(p->p_sock, l->l_sock))
START_PIPE_PRE(p)
__CPROVER_assigns(START_PIPE_ASSIGNS(p))
START_PIPE_POST(p)
COVER(EP_START_OK && WANT(p)) COVER(EP_STARTED && g_pstart_rv != 0) COVER(!EP_STARTED && g_env_closed != OLD(g_env_closed))
;

static void dialer_start_pipe(nni_dialer *d, nni_pipe *p)
__CPROVER_requires(FRESH(d, *d) && FRESH(p, *p) && FRESH(p->p_sock, SOCKT) && ALIAS(p->p_sock, d->d_sock))
START_PIPE_PRE(p)
/* the dialer owns no pipe while it connects */
__CPROVER_requires(d->d_pipe == NULL && EP_RT_CFG(d))
__CPROVER_assigns(START_PIPE_ASSIGNS(p), d->d_pipe, d->d_currtime)
START_PIPE_POST(p)
/* the new pipe is THE pipe of the dialer; the back-off restarts from the configured minimum */
__CPROVER_ensures(d->d_pipe == p && d->d_currtime == d->d_inirtime && EP_RT_INV(d))
COVER(EP_START_OK && WANT(p)) COVER(EP_STARTED && g_pstart_rv != 0) COVER(!EP_STARTED && g_env_closed != OLD(g_env_closed))
;

/* nni_pipe_start: dispatch to the listener's / the dialer's start step (exactly one of the two is set) */
#define PD(p) ((p)->p_dialer)
void nni_pipe_start(nni_pipe *p)
__CPROVER_requires(FRESH(p, *p) && FRESH(p->p_sock, SOCKT))
__CPROVER_requires((p->p_listener != NULL)
    ? (p->p_dialer == NULL && FRESH(p->p_listener, nni_listener) && ALIAS(p->p_sock, p->p_listener->l_sock))
    : (FRESH(p->p_dialer, nni_dialer) && ALIAS(p->p_sock, p->p_dialer->d_sock) && p->p_dialer->d_pipe == NULL && EP_RT_CFG(p->p_dialer)))
START_PIPE_PRE(p)
__CPROVER_assigns(START_PIPE_ASSIGNS(p))
__CPROVER_assigns(p->p_dialer != NULL: p->p_dialer->d_pipe, p->p_dialer->d_currtime)
START_PIPE_POST(p)
__CPROVER_ensures(PD(p) != NULL ==> (PD(p)->d_currtime == PD(p)->d_inirtime && EP_RT_INV(PD(p)) && ALIAS(p, PD(p)->d_pipe)))
COVER(PD(p) != NULL && EP_START_OK) COVER(PD(p) == NULL && EP_START_OK)
;

/* list node of a pipe: not on a list, or linked between its two neighbours
 * (which are one and the same node -- the list head -- when the pipe is the
 * only member; `sole` is a free ghost choosing between the two shapes) */
#define NODE_PRE(n, sole) (((n).ln_next == NULL) ? ((n).ln_prev == NULL) \
    : (FRESH((n).ln_next, nni_list_node) && ((sole) ? ALIAS((n).ln_next, (n).ln_prev) : FRESH((n).ln_prev, nni_list_node))))
#define NODE_POST(n) ((n).ln_next == NULL && (n).ln_prev == NULL && \
    (OLD((n).ln_next) != NULL ==> (OLD((n).ln_prev)->ln_next == OLD((n).ln_next) && OLD((n).ln_next)->ln_prev == OLD((n).ln_prev))))
/* the removal path: the pipe leaves the socket's and the endpoint's list, the
 * socket's waiters (close) are woken, and the dialer that owned this pipe --
 * only that one -- starts its back-off timer to dial again */
#define REMOVE_PRE(p) \
__CPROVER_requires(FRESH(p, nni_pipe) && FRESH((p)->p_sock, SOCKT)) \
__CPROVER_requires((p)->p_listener == NULL || FRESH((p)->p_listener, nni_listener)) \
__CPROVER_requires((p)->p_dialer == NULL || (FRESH((p)->p_dialer, nni_dialer) && EP_RT_INV((p)->p_dialer))) \
/* g_owned: free ghost naming the pre-state fact "the dialer's current pipe is this pipe" */ \
__CPROVER_requires((p)->p_dialer != NULL ==> g_owned == ((p)->p_dialer->d_pipe == (p))) \
__CPROVER_requires(NODE_PRE((p)->p_sock_node, g_sole_a) && NODE_PRE((p)->p_ep_node, g_sole_b))
#define REMOVE_ASSIGNS(p) \
__CPROVER_assigns((p)->p_sock_node, (p)->p_ep_node, G_WAKE, G_SLEEP, VP_SYNC_GHOSTS) \
__CPROVER_assigns((p)->p_sock_node.ln_next != NULL: (p)->p_sock_node.ln_next->ln_prev, (p)->p_sock_node.ln_prev->ln_next) \
__CPROVER_assigns((p)->p_ep_node.ln_next != NULL: (p)->p_ep_node.ln_next->ln_prev, (p)->p_ep_node.ln_prev->ln_next) \
__CPROVER_assigns((p)->p_dialer != NULL && (p)->p_dialer->d_pipe == (p): (p)->p_dialer->d_pipe, (p)->p_dialer->d_currtime)
#define REDIAL(p) (PD(p) != NULL && g_owned)
#define REMOVE_POST(p) \
__CPROVER_ensures(NODE_POST((p)->p_sock_node) && NODE_POST((p)->p_ep_node)) \
__CPROVER_ensures(g_wake_calls == OLD(g_wake_calls) + 1 && g_wake_cv == &(p)->p_sock->s_cv && g_wake_at_cb == g_cb_calls) \
/* the dialer owns no pipe any more and dials again after a random delay below its current back-off, which never exceeds the larger configured reconnect time */ \
__CPROVER_ensures(REDIAL(p) ==> (PD(p)->d_pipe == NULL && g_sleep_calls == OLD(g_sleep_calls) + 1 && g_sleep_aio == &PD(p)->d_tmo_aio \
    && g_sleep_ms >= 0 && g_sleep_ms <= EP_MAX(PD(p)->d_inirtime, PD(p)->d_maxrtime) && EP_RT_INV(PD(p)))) \
/* a pipe that is not the dialer's current pipe (still negotiating, or a listener's) never triggers a dial */ \
__CPROVER_ensures(!REDIAL(p) ==> g_sleep_calls == OLD(g_sleep_calls))

void nni_pipe_remove(nni_pipe *p)
REMOVE_PRE(p)
__CPROVER_requires(VP_NO_LOCK_HELD)
REMOVE_ASSIGNS(p)
__CPROVER_ensures(VP_NO_LOCK_HELD)
REMOVE_POST(p)
COVER(REDIAL(p)) COVER(PD(p) != NULL && !g_owned) COVER(OLD(p->p_sock_node.ln_next) != NULL && g_sole_a) COVER(OLD(p->p_ep_node.ln_next) != NULL && !g_sole_b)
;

/* ------------------------------------------------------------------ pipe.c */
/* the reaper's step for a closed pipe: protocol and transport close, THEN the
 * REM_POST event (delivered once, and only to a pipe that had ADD_PRE), THEN
 * id removal, protocol/transport stop, removal from the socket (which wakes a
 * closing socket) and the drop of the reference taken at creation */
#define RP ((nni_pipe *) arg)
#define REM_DELIV (WANT(RP) && OLD(RP->p_last_event) != NNG_PIPE_EV_NONE && OLD(RP->p_last_event) < NNG_PIPE_EV_REM_POST)
void pipe_reap(void *arg)
REMOVE_PRE(RP)
__CPROVER_requires(PIPE_OPS_OK(RP) && SOCK_CBS_OK(RP->p_sock) && PIPE_LAST_OK(RP->p_last_event))
__CPROVER_requires(VP_NO_LOCK_HELD && g_cbs_mtx == &RP->p_sock->s_pipe_cbs_mtx)
REMOVE_ASSIGNS(RP)
__CPROVER_assigns(RP->p_last_event, G_CB, G_PIPEOPS, G_IDRM, G_RELE)
__CPROVER_ensures(VP_NO_LOCK_HELD)
/* REM_POST exactly once, only after ADD_PRE */
__CPROVER_ensures(REM_DELIV ==> (RP->p_last_event == NNG_PIPE_EV_REM_POST && g_cb_calls == OLD(g_cb_calls) + CBN(RP->p_sock, NNG_PIPE_EV_REM_POST)))
__CPROVER_ensures((REM_DELIV && CBN(RP->p_sock, NNG_PIPE_EV_REM_POST)) ==> (g_cb_ev == NNG_PIPE_EV_REM_POST && g_cb_pid == RP->p_id))
__CPROVER_ensures(!REM_DELIV ==> (RP->p_last_event == OLD(RP->p_last_event) && g_cb_calls == OLD(g_cb_calls)))
/* protocol and transport were closed before the callback ran */
__CPROVER_ensures(g_pclose_calls == OLD(g_pclose_calls) + 1 && g_pclose_data == RP->p_proto_data && g_pclose_at_cb == OLD(g_cb_calls))
__CPROVER_ensures(g_tclose_calls == OLD(g_tclose_calls) + 1 && g_tclose_data == RP->p_tran_data && g_tclose_at_cb == OLD(g_cb_calls))
/* everything else after it: in particular the pipe leaves the socket's list (what nni_sock_close waits for) only after REM_POST was delivered */
__CPROVER_ensures(g_pstop_calls == OLD(g_pstop_calls) + 1 && g_pstop_at_cb == g_cb_calls && g_tstop_calls == OLD(g_tstop_calls) + 1 && g_tstop_at_cb == g_cb_calls)
__CPROVER_ensures(RP->p_id != 0 ? (g_idrm_calls == OLD(g_idrm_calls) + 1 && g_idrm_id == RP->p_id && g_idrm_at_cb == g_cb_calls) : g_idrm_calls == OLD(g_idrm_calls))
__CPROVER_ensures(g_rele_calls == OLD(g_rele_calls) + 1 && g_rele_rc == &RP->p_refcnt && g_rele_at_cb == g_cb_calls)
REMOVE_POST(RP)
COVER(REM_DELIV && CBN(RP->p_sock, NNG_PIPE_EV_REM_POST)) COVER(!REM_DELIV && WANT(RP)) COVER(REDIAL(RP))
;
/* clang-format on */
#endif
