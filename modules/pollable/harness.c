#define VP_HAVOC_GHOSTS()                         \
	do {                                      \
		g_pipe_open    = nondet_bool();   \
		g_pipe_level   = nondet_bool();   \
		g_pipe_wfd     = nondet_int();    \
		g_pipe_rfd     = nondet_int();    \
		g_pipe_open_rv = nondet_int();    \
	} while (0)
void h_pollable_init(void)  { nni_pollable *p; VP_HAVOC_GHOSTS(); nni_pollable_init(p); VP_CANARY(); }
void h_pollable_raise(void) { nni_pollable *p; VP_HAVOC_GHOSTS(); nni_pollable_raise(p); VP_CANARY(); }
void h_pollable_clear(void) { nni_pollable *p; VP_HAVOC_GHOSTS(); nni_pollable_clear(p); VP_CANARY(); }
void h_pollable_getfd(void) { nni_pollable *p; int *f; VP_HAVOC_GHOSTS(); nni_pollable_getfd(p, f); VP_CANARY(); }
void h_pollable_fini(void)  { nni_pollable *p; VP_HAVOC_GHOSTS(); nni_pollable_fini(p); VP_CANARY(); }
