/* Spec macros for src/core/pollable.c.
 * Ghost model of the notification pipe behind ONE pollable: g_pipe_open (a
 * pipe exists), g_pipe_level (its read end polls readable), g_pipe_wfd /
 * g_pipe_rfd (its descriptors).  C15: the descriptor is a level-triggered
 * mirror of the raised flag:  POLL_INV. */
#ifndef VP_POLLABLE_SPEC_H
#define VP_POLLABLE_SPEC_H
#define POLL_FDS(p) ((p)->p_fds.v)
#define POLL_NOFD ((uint64_t) -1)
#define POLL_RAISED(p) ((p)->p_raised.v)
#define POLL_WFD(f) ((int) ((f) & 0xffffffffu))
#define POLL_RFD(f) ((int) (((f) >> 32u) & 0xffffffffu))
/* descriptor state mirrors the flag whenever a descriptor exists */
#define POLL_INV(p)                                                        \
	((POLL_FDS(p) == POLL_NOFD)                                            \
	        ? !g_pipe_open                                                 \
	        : (g_pipe_open && POLL_WFD(POLL_FDS(p)) == g_pipe_wfd &&       \
	              POLL_RFD(POLL_FDS(p)) == g_pipe_rfd &&                   \
	              g_pipe_level == (POLL_RAISED(p) != 0)))
#endif
