/* Contracts for src/core/pollable.c (C15: poll descriptors mirror readiness). */
#ifndef VP_POLLABLE_CONTRACTS_H
#define VP_POLLABLE_CONTRACTS_H
/* clang-format off */
#define POLL_GHOSTS g_pipe_open, g_pipe_level

void nni_pollable_init(nni_pollable *p)
__CPROVER_requires(__CPROVER_is_fresh(p, sizeof(*p)) && !g_pipe_open)
__CPROVER_assigns(*p)
__CPROVER_ensures(POLL_FDS(p) == POLL_NOFD && !POLL_RAISED(p) && POLL_INV(p))
;

void nni_pollable_raise(nni_pollable *p)
__CPROVER_requires(__CPROVER_is_fresh(p, sizeof(*p)) && POLL_INV(p))
__CPROVER_assigns(p->p_raised, g_pipe_level)
__CPROVER_ensures(POLL_RAISED(p) && POLL_INV(p))
/* no missed wake-up: if a descriptor exists it polls readable now */
__CPROVER_ensures(POLL_FDS(p) != POLL_NOFD ==> g_pipe_level)
__CPROVER_ensures(POLL_FDS(p) == __CPROVER_old(POLL_FDS(p)))
;

void nni_pollable_clear(nni_pollable *p)
__CPROVER_requires(__CPROVER_is_fresh(p, sizeof(*p)) && POLL_INV(p))
__CPROVER_assigns(p->p_raised, g_pipe_level)
__CPROVER_ensures(!POLL_RAISED(p) && POLL_INV(p))
/* no busy loop: a descriptor that exists does not poll readable any more */
__CPROVER_ensures(POLL_FDS(p) != POLL_NOFD ==> !g_pipe_level)
__CPROVER_ensures(POLL_FDS(p) == __CPROVER_old(POLL_FDS(p)))
;

nng_err nni_pollable_getfd(nni_pollable *p, int *fdp)
__CPROVER_requires(p == NULL || (__CPROVER_is_fresh(p, sizeof(*p)) && POLL_INV(p)))
__CPROVER_requires(__CPROVER_is_fresh(fdp, sizeof(*fdp)))
__CPROVER_requires(g_pipe_wfd >= 0 && g_pipe_rfd >= 0)
__CPROVER_assigns(p != NULL: p->p_fds; *fdp, POLL_GHOSTS)
__CPROVER_ensures(p == NULL ==> __CPROVER_return_value == NNG_EINVAL)
__CPROVER_ensures((p != NULL && __CPROVER_return_value == NNG_OK) ==> (POLL_FDS(p) != POLL_NOFD && *fdp == POLL_RFD(POLL_FDS(p)) && POLL_INV(p)))
/* the descriptor handed out is readable exactly when the flag is raised */
__CPROVER_ensures((p != NULL && __CPROVER_return_value == NNG_OK) ==> (g_pipe_level == (POLL_RAISED(p) != 0)))
__CPROVER_ensures((p != NULL && __CPROVER_return_value != NNG_OK) ==> (__CPROVER_return_value == (nng_err) g_pipe_open_rv && POLL_FDS(p) == __CPROVER_old(POLL_FDS(p)) && POLL_INV(p)))
__CPROVER_ensures(p != NULL ==> POLL_RAISED(p) == __CPROVER_old(POLL_RAISED(p)))
;

void nni_pollable_fini(nni_pollable *p)
__CPROVER_requires(__CPROVER_is_fresh(p, sizeof(*p)) && POLL_INV(p))
__CPROVER_assigns(g_pipe_open)
/* the pipe, if any, is closed exactly once */
__CPROVER_ensures(!g_pipe_open)
;
/* clang-format on */
#endif
