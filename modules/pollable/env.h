/* Environment of pollable.c (ASSUMED): atomics are sequential; the platform
 * notification pipe is a ghost level flag. */
bool g_pipe_open;
bool g_pipe_level;
int  g_pipe_wfd, g_pipe_rfd;
int  g_pipe_open_rv; /* result the next nni_plat_pipe_open will report */

void nni_atomic_init_bool(nni_atomic_bool *b) { b->v = false; }
bool nni_atomic_swap_bool(nni_atomic_bool *b, bool n) { bool o = b->v; b->v = n; return (o); }
bool nni_atomic_get_bool(nni_atomic_bool *b) { return (b->v); }
void nni_atomic_set64(nni_atomic_u64 *v, uint64_t u) { v->v = u; }
uint64_t nni_atomic_get64(nni_atomic_u64 *v) { return (v->v); }
bool
nni_atomic_cas64(nni_atomic_u64 *v, uint64_t comp, uint64_t new)
{
	if (v->v == comp) {
		v->v = new;
		return (true);
	}
	return (false);
}
int
nni_plat_pipe_open(int *wfd, int *rfd)
{
	if (g_pipe_open_rv != 0) {
		return (g_pipe_open_rv);
	}
	__CPROVER_assert(!g_pipe_open, "at most one pipe per pollable is opened");
	g_pipe_open  = true;
	g_pipe_level = false;
	*wfd         = g_pipe_wfd;
	*rfd         = g_pipe_rfd;
	return (0);
}
void
nni_plat_pipe_raise(int wfd)
{
	__CPROVER_assert(g_pipe_open && wfd == g_pipe_wfd, "raise on the write end of the open pipe");
	g_pipe_level = true;
}
void
nni_plat_pipe_clear(int rfd)
{
	__CPROVER_assert(g_pipe_open && rfd == g_pipe_rfd, "clear on the read end of the open pipe");
	g_pipe_level = false;
}
void
nni_plat_pipe_close(int rfd, int wfd)
{
	/* NB: declared as (wfd, rfd) in platform.h -- see contract of fini */
	__CPROVER_assert(g_pipe_open, "close of an open pipe");
	g_pipe_open = false;
	(void) rfd;
	(void) wfd;
}
