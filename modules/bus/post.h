/* included AFTER the real sources */
#include "modules/sub/env_alloc.h"
#include "include/env_sync.h"
/* env_proto.h's list functions become the ghost-queue halves of the dispatchers
 * (modules/sub/lists_post.h); its pipe id / pipe send stubs are wrapped by per-pipe models */
#define nni_list_first vp_aioq_first
#define nni_list_empty vp_aioq_empty
#define nni_pipe_id vp_proto_pipe_id
#define nni_pipe_send vp_proto_pipe_send
#define VP_PROTO_STUBS 1
#include "include/env_proto.h"
#undef nni_list_first
#undef nni_list_empty
#undef nni_pipe_id
#undef nni_pipe_send
#include "modules/sub/lists_post.h"
#include "modules/bus/env.h"
