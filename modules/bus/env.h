/* modules/bus/env.h -- per-pipe environment models (ASSUMED, ghost accounting only).
 * A transport pipe handle (nni_pipe *, opaque to the protocol) is modelled by a cell
 * holding the pipe's id; nni_pipe_send additionally counts the calls per pipe. */
#ifndef VP_BUS_ENV_H
#define VP_BUS_ENV_H
bus0_sock *g_s;                  /* the socket */
size_t     g_np;                 /* number of attached pipes on its list: 0..3 */
bus0_pipe *g_bp0, *g_bp1, *g_bp2;   /* the pipes, in list order */
size_t     g_sent0, g_sent1, g_sent2; /* nni_pipe_send calls per pipe */
uint32_t nni_pipe_id(nni_pipe *p) { return (*(uint32_t *) p); }
void
nni_pipe_send(nni_pipe *p, nni_aio *aio)
{
	vp_proto_pipe_send(p, aio);
	if (p == g_bp0->pipe) {
		g_sent0++;
		__CPROVER_assert(aio == &g_bp0->aio_send, "pipe send uses that pipe's own send aio");
	} else if (p == g_bp1->pipe) {
		g_sent1++;
		__CPROVER_assert(aio == &g_bp1->aio_send, "pipe send uses that pipe's own send aio");
	} else if (p == g_bp2->pipe) {
		g_sent2++;
		__CPROVER_assert(aio == &g_bp2->aio_send, "pipe send uses that pipe's own send aio");
	} else {
		__CPROVER_assert(0, "pipe send on a pipe of this socket");
	}
}
void nng_msg_free(nng_msg *m) { nni_msg_free(m); }
#endif
