/* Spec macros for src/sp/protocol/bus0/bus.c (C09, C15).  No code. */
#ifndef VP_BUS_SPEC_H
#define VP_BUS_SPEC_H
/* BOUNDS (grade B): at most 3 attached pipes (real nni_list of real nodes built by the
 * harness); every per-pipe send queue and the socket's receive queue is a heap ring of
 * BUS_QSLOTS slots (depth 1..BUS_QSLOTS, ring position and occupancy symbolic). */
#define BUS_QSLOTS 4
#define BUS_LMQ_PRE(q) ((q)->lmq_alloc == BUS_QSLOTS && LMQ_WF_SCALAR(q) && (q)->lmq_cap >= 1)
#endif
