/* Contracts for src/sp/protocol/bus0/bus.c.
 * The object skeleton (socket, up to three pipes on the real pipe list, queue rings)
 * is BUILT by the harness and named by ghosts (g_s, g_bp0..g_bp2, g_np). */
#ifndef VP_BUS_CONTRACTS_H
#define VP_BUS_CONTRACTS_H
/* clang-format off */
#define RV __CPROVER_return_value
#define OLD(e) __CPROVER_old(e)
#define BUS_PID(p) (*(uint32_t *) (p)->pipe)
#define BUS_RPOLL_INV (g_pollr == (g_s->recv_msgs.lmq_len > 0))

/* =====================================================================
 * bus0_sock_send (C09 fan-out / no echo / never blocks, C15, C03)
 * ===================================================================== */
#define BS_M   (aio->a_msg)
#define BS_RAWHDR (g_s->raw && OLD(BS_M->m_header_len) >= 4)
/* pipe p is the origin named by the raw header (g_u32 = that header word) */
#define BS_SKIP(p) (BS_RAWHDR && BUS_PID(p) == g_u32)
#define BS_FULL_OLD(p) (OLD((p)->send_queue.lmq_len) >= (p)->send_queue.lmq_cap)
#define BS_TAKES(p) (!BS_SKIP(p) && (!OLD((p)->busy) || !BS_FULL_OLD(p)))
/* the queue shape is required of all three skeleton pipes (attached or not): the OLD() snapshots of the
 * postconditions are evaluated unconditionally at entry */
#define BS_PIPE_PRE(i, p) (BUS_LMQ_PRE(&(p)->send_queue) && (g_np <= (i) || BUS_PID(p) != 0))
#define BS_PIPE_ASSIGNS(i, p) \
__CPROVER_assigns(g_np > (i): (p)->busy, (p)->aio_send.a_msg, (p)->send_queue.lmq_put, (p)->send_queue.lmq_len, __CPROVER_object_whole((p)->send_queue.lmq_msgs))
#define BS_Q_SAME(p) ((p)->send_queue.lmq_len == OLD((p)->send_queue.lmq_len) && (g_j >= (p)->send_queue.lmq_len || LMQ_VIEW(&(p)->send_queue, g_j) == OLD(LMQ_VIEW(&(p)->send_queue, g_j))))
/* outcome for attached pipe number i:
 *   origin of a raw message: untouched (never echoed);
 *   idle: this message goes on the wire now (its own send aio, exactly one nni_pipe_send);
 *   busy with room: queued at the tail;  busy and full: THAT copy is dropped, nothing else */
#define BS_PIPE_POST(i, p, SENT)                                                                        \
	(g_np <= (i) ||                                                                                     \
	    (BS_SKIP(p) ? ((p)->busy == OLD((p)->busy) && BS_Q_SAME(p) && SENT == OLD(SENT))               \
	        : (!OLD((p)->busy) ? ((p)->busy && (p)->aio_send.a_msg == OLD(BS_M) && SENT == OLD(SENT) + 1 && BS_Q_SAME(p)) \
	              : (!BS_FULL_OLD(p) ? ((p)->busy && SENT == OLD(SENT) && (p)->send_queue.lmq_len == OLD((p)->send_queue.lmq_len) + 1 && \
	                                       LMQ_VIEW(&(p)->send_queue, (p)->send_queue.lmq_len - 1) == OLD(BS_M) &&  \
	                                       (g_j >= OLD((p)->send_queue.lmq_len) || LMQ_VIEW(&(p)->send_queue, g_j) == OLD(LMQ_VIEW(&(p)->send_queue, g_j)))) \
	                                 : ((p)->busy && SENT == OLD(SENT) && BS_Q_SAME(p))))))
#define BS_NTAKEN ((size_t) ((g_np > 0 && BS_TAKES(g_bp0)) ? 1 : 0) + ((g_np > 1 && BS_TAKES(g_bp1)) ? 1 : 0) + ((g_np > 2 && BS_TAKES(g_bp2)) ? 1 : 0))
static void bus0_sock_send(void *arg, nni_aio *aio)
__CPROVER_requires(arg == g_s && VP_NO_LOCK_HELD && g_np <= 3)
__CPROVER_requires(__CPROVER_is_fresh(aio, sizeof(nni_aio)) && VP_AIOQS_PRE && VP_AIO_NOT_QUEUED(aio))
__CPROVER_requires(__CPROVER_is_fresh(BS_M, sizeof(struct nng_msg)) && BS_M->m_header_len <= MSG_HDRCAP && BS_M->m_refcnt.v == 1 && CH_FULL_PRE(&BS_M->m_body))
/* ghost equation: g_u32 is the first header word (the origin pipe id of a forwarded raw message) */
__CPROVER_requires(BS_M->m_header_len >= 4 ==> g_u32 == BE32(HDR(BS_M)))
__CPROVER_requires(BS_PIPE_PRE(0, g_bp0) && BS_PIPE_PRE(1, g_bp1) && BS_PIPE_PRE(2, g_bp2))
__CPROVER_assigns(aio->a_msg, aio->a_result, aio->a_count, *BS_M, VP_PROTO_GHOST_LIST, VP_SYNC_GHOSTS, g_free_calls, g_sent0, g_sent1, g_sent2)
BS_PIPE_ASSIGNS(0, g_bp0) BS_PIPE_ASSIGNS(1, g_bp1) BS_PIPE_ASSIGNS(2, g_bp2)
__CPROVER_frees(BS_M, BS_M->m_body.ch_buf)
__CPROVER_ensures(VP_NO_LOCK_HELD && VP_AIOQS_OK)
/* C09/C15: BUS send NEVER blocks - for EVERY timeout setting of the aio (the timeout is not
 * consulted: nni_aio_start is never reached) it completes in the call, with success.
 * (postcondition.2: fails on the current tree = known finding D11, see known_findings.json) */
__CPROVER_ensures(g_start_calls == OLD(g_start_calls))
/* everything below is stated for every run that the aio layer did not refuse (BS_REFUSED is
 * impossible once D11 is repaired; while it is not, the fan-out obligations stay checked on
 * the accepted path) */
#define BS_REFUSED (g_start_calls != OLD(g_start_calls) && !g_aio_start_ok)
__CPROVER_ensures(BS_REFUSED || (g_fin_calls == OLD(g_fin_calls) + 1 && g_fin_last == aio && g_fin_last_rv == 0 && g_fin_last_count == OLD(BS_M->m_body.ch_len) && aio->a_msg == NULL))
/* C09: one copy offered to every attached pipe except the origin, at most once each */
__CPROVER_ensures(BS_REFUSED || BS_PIPE_POST(0, g_bp0, g_sent0))
__CPROVER_ensures(BS_REFUSED || BS_PIPE_POST(1, g_bp1, g_sent1))
__CPROVER_ensures(BS_REFUSED || BS_PIPE_POST(2, g_bp2, g_sent2))
__CPROVER_ensures(BS_REFUSED || g_pipe_send_calls == OLD(g_pipe_send_calls) + (g_sent0 - OLD(g_sent0)) + (g_sent1 - OLD(g_sent1)) + (g_sent2 - OLD(g_sent2)))
/* C03: the caller's reference is released exactly once: what remains is one reference per taker */
__CPROVER_ensures(BS_REFUSED || (BS_NTAKEN == 0 ? __CPROVER_was_freed(OLD(BS_M)) : (!__CPROVER_was_freed(OLD(BS_M)) && OLD(BS_M)->m_refcnt.v == (int) BS_NTAKEN)))
/* the copies carry no BUS header: cooked strips it, raw consumes the origin word */
__CPROVER_ensures((!BS_REFUSED && BS_NTAKEN > 0) ==> OLD(BS_M)->m_header_len == (g_s->raw ? (OLD(BS_M->m_header_len) >= 4 ? OLD(BS_M->m_header_len) - 4 : OLD(BS_M->m_header_len)) : 0))
/* refused by the aio layer (only reachable through D11): nothing was sent, queued or released */
__CPROVER_ensures(BS_REFUSED ==> (!__CPROVER_was_freed(OLD(BS_M)) && g_fin_calls == OLD(g_fin_calls) && g_pipe_send_calls == OLD(g_pipe_send_calls)))
;

/* =====================================================================
 * bus0_pipe_recv_cb (C09: origin pipe id pushed into the raw header; dropped whole when full)
 * ===================================================================== */
#define BR_P ((bus0_pipe *) arg)
#define BR_M (BR_P->aio_recv.a_msg)
#define BR_Q (&g_s->recv_msgs)
#ifdef BUS_RECV_FAILED
static void bus0_pipe_recv_cb(void *arg)
__CPROVER_requires(arg == g_bp0 && g_np >= 1 && VP_NO_LOCK_HELD && BR_P->aio_recv.a_result != 0 && VP_AIOQS_PRE)
__CPROVER_assigns(VP_PROTO_GHOST_LIST)
__CPROVER_ensures(VP_NO_LOCK_HELD && g_pipe_close_calls == OLD(g_pipe_close_calls) + 1 && g_pipe_close_last == BR_P->pipe && g_fin_calls == OLD(g_fin_calls) && g_pipe_recv_calls == OLD(g_pipe_recv_calls) && BR_Q->lmq_len == OLD(BR_Q->lmq_len) && g_qa.n == OLD(g_qa.n))
;
#else
static void bus0_pipe_recv_cb(void *arg)
__CPROVER_requires(arg == g_bp0 && g_np >= 1 && g_np <= 3 && VP_NO_LOCK_HELD && BR_P->aio_recv.a_result == 0)
__CPROVER_requires(__CPROVER_is_fresh(BR_M, sizeof(struct nng_msg)) && BR_M->m_header_len == 0 && BR_M->m_refcnt.v == 1 && CH_FULL_PRE(&BR_M->m_body) && CH_GHOST_PRE(&BR_M->m_body))
__CPROVER_requires(BUS_LMQ_PRE(BR_Q) && VP_AIOQS_PRE && g_qb.n == 0 && VP_AIO_NOT_QUEUED(&BR_P->aio_recv) && BUS_RPOLL_INV)
/* STABLE STATE: receivers wait only while the receive queue is empty */
__CPROVER_requires(g_qa.n == 0 || BR_Q->lmq_len == 0)
__CPROVER_assigns(BR_P->aio_recv.a_msg, *BR_M, BR_Q->lmq_put, BR_Q->lmq_len, __CPROVER_object_whole(BR_Q->lmq_msgs), VP_PROTO_GHOST_LIST, VP_SYNC_GHOSTS, g_free_calls)
__CPROVER_assigns(g_qa.n > 0: g_qa.head->a_msg)
__CPROVER_frees(BR_M, BR_M->m_body.ch_buf)
__CPROVER_ensures(VP_NO_LOCK_HELD && VP_AIOQS_OK && LMQ_WF_SCALAR(BR_Q))
__CPROVER_ensures(g_pipe_recv_calls == OLD(g_pipe_recv_calls) + 1 && g_pipe_recv_pipe == BR_P->pipe && g_pipe_recv_aio == &BR_P->aio_recv && BR_P->aio_recv.a_msg == NULL && g_pipe_close_calls == OLD(g_pipe_close_calls))
/* delivered (to a waiting receiver, else to the queue): body untouched, origin recorded;
 * raw mode: the header is exactly the origin pipe id */
#define BR_DELIVERED (OLD(g_qa.n) > 0 || OLD(BR_Q->lmq_len) < BR_Q->lmq_cap)
__CPROVER_ensures(BR_DELIVERED ==> (!__CPROVER_was_freed(OLD(BR_M)) && OLD(BR_M)->m_pipe == BUS_PID(BR_P) && OLD(BR_M)->m_body.ch_len == OLD(BR_M->m_body.ch_len) && OLD(BR_M)->m_refcnt.v == 1))
__CPROVER_ensures((BR_DELIVERED && g_s->raw) ==> (OLD(BR_M)->m_header_len == 4 && BE32(HDR(OLD(BR_M))) == BUS_PID(BR_P)))
__CPROVER_ensures((BR_DELIVERED && !g_s->raw) ==> OLD(BR_M)->m_header_len == 0)
__CPROVER_ensures((BR_DELIVERED && g_k < OLD(BR_M->m_body.ch_len)) ==> OLD(BR_M)->m_body.ch_ptr[g_k] == g_b)
__CPROVER_ensures(OLD(g_qa.n) > 0 ==> (g_fin_calls == OLD(g_fin_calls) + 1 && g_fin_last == OLD(g_qa.head) && g_fin_last_rv == 0 && g_fin_last_msg == OLD(BR_M) && g_fin_last_count == OLD(BR_M->m_body.ch_len) && g_qa.n == OLD(g_qa.n) - 1 && BR_Q->lmq_len == OLD(BR_Q->lmq_len)))
__CPROVER_ensures((OLD(g_qa.n) == 0 && OLD(BR_Q->lmq_len) < BR_Q->lmq_cap) ==> (g_fin_calls == OLD(g_fin_calls) && BR_Q->lmq_len == OLD(BR_Q->lmq_len) + 1 && LMQ_VIEW(BR_Q, BR_Q->lmq_len - 1) == OLD(BR_M) && (g_j >= OLD(BR_Q->lmq_len) || LMQ_VIEW(BR_Q, g_j) == OLD(LMQ_VIEW(BR_Q, g_j)))))
/* queue full: dropped WHOLE - released, nothing queued, nothing reordered */
__CPROVER_ensures(!BR_DELIVERED ==> (__CPROVER_was_freed(OLD(BR_M)) && g_fin_calls == OLD(g_fin_calls) && BR_Q->lmq_len == OLD(BR_Q->lmq_len) && (g_j >= BR_Q->lmq_len || LMQ_VIEW(BR_Q, g_j) == OLD(LMQ_VIEW(BR_Q, g_j)))))
/* C15 */
__CPROVER_ensures(BUS_RPOLL_INV)
;
#endif

/* =====================================================================
 * bus0_sock_recv (C15)
 * ===================================================================== */
#define BV_V0 LMQ_VIEW(BR_Q, 0)
static void bus0_sock_recv(void *arg, nni_aio *aio)
__CPROVER_requires(arg == g_s && VP_NO_LOCK_HELD && BUS_LMQ_PRE(BR_Q) && BUS_RPOLL_INV)
/* queued messages are unshared (bus0_pipe_recv_cb queues the transport's message itself) */
__CPROVER_requires(BR_Q->lmq_len == 0 || (BV_V0->m_header_len <= MSG_HDRCAP && BV_V0->m_refcnt.v == 1))
__CPROVER_requires(__CPROVER_is_fresh(aio, sizeof(nni_aio)) && VP_AIOQS_PRE && VP_AIO_NOT_QUEUED(aio) && g_qa.n < 8 && g_qb.n == 0)
__CPROVER_assigns(aio->a_msg, BR_Q->lmq_get, BR_Q->lmq_len, VP_PROTO_GHOST_LIST, VP_SYNC_GHOSTS, g_free_calls, g_alloc_ok, g_alloc_fail)
__CPROVER_assigns(BR_Q->lmq_len > 0: *BV_V0)
__CPROVER_frees(BR_Q->lmq_len > 0: BV_V0, BV_V0->m_body.ch_buf)
__CPROVER_ensures(VP_NO_LOCK_HELD && VP_AIOQS_OK && LMQ_WF_SCALAR(BR_Q))
__CPROVER_ensures(OLD(BR_Q->lmq_len) == 0 ==> (g_start_calls == OLD(g_start_calls) + 1 && g_start_last == aio && g_fin_calls == OLD(g_fin_calls) && BR_Q->lmq_len == 0 && aio->a_msg == OLD(aio->a_msg) && g_qa.n == OLD(g_qa.n) + (g_aio_start_ok ? 1 : 0)))
/* C09 order: receivers are served first come first served - a new waiter joins at the TAIL, the head waiter keeps its place */
__CPROVER_ensures((OLD(BR_Q->lmq_len) == 0 && g_aio_start_ok) ==> (g_qa.tail == aio && (OLD(g_qa.n) == 0 ? g_qa.head == aio : g_qa.head == OLD(g_qa.head))))
__CPROVER_ensures(OLD(BR_Q->lmq_len) > 0 ==> (g_start_calls == OLD(g_start_calls) && g_fin_calls == OLD(g_fin_calls) + 1 && g_fin_last == aio && g_fin_last_rv == 0 && g_fin_last_msg == OLD(BV_V0) && g_fin_last_count == OLD(BV_V0)->m_body.ch_len && aio->a_msg == OLD(BV_V0) && BR_Q->lmq_len == OLD(BR_Q->lmq_len) - 1 && g_qa.n == OLD(g_qa.n)))
__CPROVER_ensures((OLD(BR_Q->lmq_len) > 0 && g_j < BR_Q->lmq_len && g_j < LMQ_MAXALLOC) ==> LMQ_VIEW(BR_Q, g_j) == OLD(LMQ_VIEW(BR_Q, g_j + 1)))
__CPROVER_ensures(BUS_RPOLL_INV)
;

/* =====================================================================
 * bus0_pipe_send_cb (per-peer order: the next queued copy goes out, oldest first)
 * ===================================================================== */
#define BC_P ((bus0_pipe *) arg)
#define BC_Q (&BC_P->send_queue)
static void bus0_pipe_send_cb(void *arg)
__CPROVER_requires(arg == g_bp0 && g_np >= 1 && VP_NO_LOCK_HELD && BUS_LMQ_PRE(BC_Q) && BC_P->busy)
__CPROVER_requires(BC_P->aio_send.a_result == 0 || BC_P->aio_send.a_msg == NULL || (__CPROVER_is_fresh(BC_P->aio_send.a_msg, sizeof(struct nng_msg)) && BC_P->aio_send.a_msg->m_refcnt.v >= 1 && BC_P->aio_send.a_msg->m_refcnt.v < 1000 && CH_FULL_PRE(&BC_P->aio_send.a_msg->m_body)))
__CPROVER_assigns(BC_P->busy, BC_P->aio_send.a_msg, BC_Q->lmq_get, BC_Q->lmq_len, VP_PROTO_GHOST_LIST, VP_SYNC_GHOSTS, g_free_calls, g_sent0, g_sent1, g_sent2)
__CPROVER_assigns(BC_P->aio_send.a_result != 0 && BC_P->aio_send.a_msg != NULL: *BC_P->aio_send.a_msg)
__CPROVER_frees(BC_P->aio_send.a_result != 0 && BC_P->aio_send.a_msg != NULL: BC_P->aio_send.a_msg, BC_P->aio_send.a_msg->m_body.ch_buf)
__CPROVER_ensures(VP_NO_LOCK_HELD && LMQ_WF_SCALAR(BC_Q))
/* send failed: the unsent copy is released, the peer disconnected */
__CPROVER_ensures(BC_P->aio_send.a_result != 0 ==> (BC_P->aio_send.a_msg == NULL && g_pipe_close_calls == OLD(g_pipe_close_calls) + 1 && g_pipe_close_last == BC_P->pipe && g_sent0 == OLD(g_sent0) && BC_Q->lmq_len == OLD(BC_Q->lmq_len)))
/* more queued: the OLDEST goes out next */
__CPROVER_ensures((BC_P->aio_send.a_result == 0 && OLD(BC_Q->lmq_len) > 0) ==> (BC_P->busy && BC_P->aio_send.a_msg == OLD(LMQ_VIEW(BC_Q, 0)) && g_sent0 == OLD(g_sent0) + 1 && BC_Q->lmq_len == OLD(BC_Q->lmq_len) - 1 && g_pipe_close_calls == OLD(g_pipe_close_calls)))
__CPROVER_ensures((BC_P->aio_send.a_result == 0 && OLD(BC_Q->lmq_len) > 0 && g_j < BC_Q->lmq_len && g_j < LMQ_MAXALLOC) ==> LMQ_VIEW(BC_Q, g_j) == OLD(LMQ_VIEW(BC_Q, g_j + 1)))
/* nothing queued: the pipe becomes idle */
__CPROVER_ensures((BC_P->aio_send.a_result == 0 && OLD(BC_Q->lmq_len) == 0) ==> (!BC_P->busy && g_sent0 == OLD(g_sent0) && BC_Q->lmq_len == 0 && g_pipe_close_calls == OLD(g_pipe_close_calls)))
;
/* clang-format on */
#endif
