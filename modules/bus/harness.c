#define VP_HAVOC_GHOSTS()                         \
	do {                                      \
		g_k = nondet_size_t(); g_j = nondet_size_t(); g_b = nondet_u8(); \
		g_hk = nondet_size_t(); g_u32 = nondet_u32(); g_hb = nondet_u8(); \
		g_free_calls = nondet_size_t(); g_alloc_ok = nondet_size_t(); g_alloc_fail = nondet_size_t(); \
		g_sent0 = nondet_size_t(); g_sent1 = nondet_size_t(); g_sent2 = nondet_size_t(); \
		__CPROVER_assume(g_free_calls < ((size_t) 1 << 40) && g_alloc_ok < ((size_t) 1 << 40) && g_alloc_fail < ((size_t) 1 << 40)); \
		__CPROVER_assume(g_sent0 < ((size_t) 1 << 40) && g_sent1 < ((size_t) 1 << 40) && g_sent2 < ((size_t) 1 << 40)); \
		VP_HAVOC_PROTO(); VP_HAVOC_SYNC();    \
		/* "last seen" pointer records start as NULL (only ever compared); queue heads are made real by \
		 * VP_AIOQS_PRE; an unknown tail is NULL (see VP_AIOQ_OK) */ \
		g_pipe_close_last = NULL; g_pipe_recv_pipe = NULL; g_pipe_recv_aio = NULL; g_pipe_send_pipe = NULL; \
		g_pipe_send_aio = NULL; g_pipe_send_msg = NULL; g_fin_last = NULL; g_fin_last_msg = NULL; g_start_last = NULL; \
		g_qa.head = NULL; g_qa.tail = NULL; g_qb.head = NULL; g_qb.tail = NULL; g_last_app = NULL; \
		g_qa_addr = NULL; g_qb_addr = NULL; g_pollr_addr = NULL; g_pollw_addr = NULL; \
	} while (0)
/* typed allocation of an object that always exists, contents nondeterministic */
#define VP_NEW(T) ((T *) __CPROVER_allocate(sizeof(T), 0))
/* a heap ring of BUS_QSLOTS slots, each holding a real message object */
static void vp_mk_ring(nni_lmq *q)
{
	q->lmq_msgs    = (nng_msg **) __CPROVER_allocate(BUS_QSLOTS * sizeof(nng_msg *), 0);
	q->lmq_msgs[0] = VP_NEW(struct nng_msg); q->lmq_msgs[1] = VP_NEW(struct nng_msg);
	q->lmq_msgs[2] = VP_NEW(struct nng_msg); q->lmq_msgs[3] = VP_NEW(struct nng_msg);
}
static bus0_pipe *vp_mk_pipe(bool on)
{
	bus0_pipe *p    = VP_NEW(bus0_pipe);
	p->bus          = g_s;
	p->pipe         = (nni_pipe *) VP_NEW(uint32_t); /* transport pipe handle: a cell holding its id */
	p->node.ln_next = NULL;
	p->node.ln_prev = NULL;
	vp_mk_ring(&p->send_queue);
	if (on) {
		real_list_append(&g_s->pipes, p);
	}
	return (p);
}
static void vp_mk_bus(size_t np)
{
#ifndef BUS_NPMAX
#define BUS_NPMAX 3
#endif
	__CPROVER_assume(np <= BUS_NPMAX);
	g_np = np;
	g_s  = VP_NEW(bus0_sock);
	real_list_init_offset(&g_s->pipes, offsetof(bus0_pipe, node));
	g_s->recv_wait.ll_offset = VP_AIO_OFF; /* nni_aio_list_init */
	vp_mk_ring(&g_s->recv_msgs);
	g_bp0 = vp_mk_pipe(np > 0);
	g_bp1 = vp_mk_pipe(np > 1);
	g_bp2 = vp_mk_pipe(np > 2);
	g_qa_addr    = &g_s->recv_wait;
	g_pollr_addr = &g_s->can_recv;
	g_pollw_addr = &g_s->can_send;
}
#ifdef BUS_NPCONST
#define BUS_SEND_NP BUS_NPCONST /* case split on the number of attached pipes: a CONSTANT keeps the list skeleton concrete for symex */
#else
#define BUS_SEND_NP nondet_size_t()
#endif
void h_bus0_sock_send(void) { nni_aio *aio; VP_HAVOC_GHOSTS(); vp_mk_bus(BUS_SEND_NP); bus0_sock_send(g_s, aio); VP_CANARY(); }
void h_bus0_pipe_recv_cb(void) { VP_HAVOC_GHOSTS(); vp_mk_bus(nondet_size_t()); bus0_pipe_recv_cb(g_bp0); VP_CANARY(); }
void h_bus0_sock_recv(void) { nni_aio *aio; VP_HAVOC_GHOSTS(); vp_mk_bus(nondet_size_t()); bus0_sock_recv(g_s, aio); VP_CANARY(); }
void h_bus0_pipe_send_cb(void) { VP_HAVOC_GHOSTS(); vp_mk_bus(nondet_size_t()); bus0_pipe_send_cb(g_bp0); VP_CANARY(); }
