/* included BEFORE the real sources of the bus TU */
#define VP_PROTO_GHOSTS 1
#include "include/env_proto.h"
#define VP_MEMCPY_HAVOC_OBJECT 1
#include "include/env_mem.h"
#include "modules/message/spec.h"
#include "modules/lmq/spec.h"
#include "modules/sub/lists_pre.h" /* real src/core/list.c under the names real_list_* */
#include "modules/bus/spec.h"
size_t g_alloc_fail; /* ghost: failed nni_alloc/nni_zalloc calls (modules/sub/env_alloc.h) */
