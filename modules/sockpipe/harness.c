void h_pipe_find(void) { nni_pipe **pp; uint32_t id; VP_HAVOC_GHOSTS(); nni_pipe_find(pp, id); VP_CANARY(); }
void h_dialer_find(void) { nni_dialer **dp; uint32_t id; VP_HAVOC_GHOSTS(); nni_dialer_find(dp, id); VP_CANARY(); }
void h_listener_find(void) { nni_listener **lp; uint32_t id; VP_HAVOC_GHOSTS(); nni_listener_find(lp, id); VP_CANARY(); }
void h_pipe_create(void) { nni_pipe **pp; nni_sock *s; nni_sp_tran *t; nni_dialer *d; nni_listener *l; VP_HAVOC_GHOSTS(); pipe_create(pp, s, t, d, l); VP_CANARY(); }
void h_pipe_hold(void) { nni_pipe *p; VP_HAVOC_GHOSTS(); nni_pipe_hold(p); VP_CANARY(); }
void h_pipe_rele(void) { nni_pipe *p; VP_HAVOC_GHOSTS(); nni_pipe_rele(p); VP_CANARY(); }
void h_pipe_id(void) { nni_pipe *p; VP_HAVOC_GHOSTS(); nni_pipe_id(p); VP_CANARY(); }
void h_pipe_is_closed(void) { nni_pipe *p; VP_HAVOC_GHOSTS(); nni_pipe_is_closed(p); VP_CANARY(); }
void h_pipe_send(void) { nni_pipe *p; nni_aio *a; VP_HAVOC_GHOSTS(); nni_pipe_send(p, a); VP_CANARY(); }
void h_pipe_recv(void) { nni_pipe *p; nni_aio *a; VP_HAVOC_GHOSTS(); nni_pipe_recv(p, a); VP_CANARY(); }
void h_pipe_peer(void) { nni_pipe *p; VP_HAVOC_GHOSTS(); nni_pipe_peer(p); VP_CANARY(); }
void h_dialer_hold(void) { nni_dialer *d; VP_HAVOC_GHOSTS(); nni_dialer_hold(d); VP_CANARY(); }
void h_dialer_rele(void) { nni_dialer *d; VP_HAVOC_GHOSTS(); nni_dialer_rele(d); VP_CANARY(); }
void h_listener_hold(void) { nni_listener *l; VP_HAVOC_GHOSTS(); nni_listener_hold(l); VP_CANARY(); }
void h_listener_rele(void) { nni_listener *l; VP_HAVOC_GHOSTS(); nni_listener_rele(l); VP_CANARY(); }
/* lemma harness (no function under contract, run WITHOUT DFCC): the static initialisers of the id maps of pipe.c / dialer.c / listener.c fix the documented range 1..0x7fffffff */
void h_id_ranges_p(void) {
	__CPROVER_assert(pipes.id_min_val == 1 && pipes.id_max_val == 0x7fffffff && pipes.id_static && pipes.id_random, "pipes: range 1..0x7fffffff, random start");
	__CPROVER_assert(dialers.id_min_val == 1 && dialers.id_max_val == 0x7fffffff && dialers.id_static, "dialers: range 1..0x7fffffff");
	__CPROVER_assert(listeners.id_min_val == 1 && listeners.id_max_val == 0x7fffffff && listeners.id_static, "listeners: range 1..0x7fffffff");
	VP_CANARY();
}
