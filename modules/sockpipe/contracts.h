/* Contracts of the sockpipe module (second translation unit of the sockcore
 * work: pipe.c, dialer.c, listener.c): pipe / dialer / listener find, pipe
 * creation, hold / release, thin wrappers.  Shared macros: modules/sockcore/contracts.h. */
#ifndef VP_SOCKPIPE_CONTRACTS_H
#define VP_SOCKPIPE_CONTRACTS_H
/* clang-format off */
/* pipes: a closed pipe stays findable until the reaper has removed its id
 * (pipe_reap, modules/endpoint): applications read properties of a closed pipe
 * in the REM_POST callback */
#define PIPER ((nni_pipe *) g_reg)
#define PREF(p) SC_AINT((p)->p_refcnt.rc_cnt)
nng_err nni_pipe_find(nni_pipe **pp, uint32_t id)
__CPROVER_requires(FRESH(pp, *pp) && VP_NO_LOCK_HELD)
__CPROVER_requires(g_reg == NULL || FRESH(g_reg, nni_pipe))
__CPROVER_requires(g_reg != NULL ==> ((int) g_u32 == PREF(PIPER) && PREF(PIPER) >= 1 && PREF(PIPER) < 0x7fffffff))
__CPROVER_assigns(*pp, g_idg_calls, g_idg_map, g_idg_id, VP_SYNC_GHOSTS)
__CPROVER_assigns(g_reg != NULL: PIPER->p_refcnt.rc_cnt)
__CPROVER_ensures(VP_NO_LOCK_HELD)
__CPROVER_ensures(RV == NNG_OK || RV == NNG_ENOENT)
__CPROVER_ensures((RV == NNG_OK) == (g_reg != NULL))
__CPROVER_ensures(RV == NNG_OK ==> (*pp == PIPER && g_idg_calls == OLD(g_idg_calls) + 1 && g_idg_map == &pipes && g_idg_id == (uint64_t) id && PREF(PIPER) == (int) g_u32 + 1))
__CPROVER_ensures(RV != NNG_OK ==> (*pp == OLD(*pp) && (g_reg != NULL ==> PREF(PIPER) == (int) g_u32)))
COVER(RV == NNG_OK) COVER(RV == NNG_ENOENT)
;

/* dialers / listeners: a closed endpoint has left the map (nni_dialer_close removes the id under the same lock) */
#define DIALR ((nni_dialer *) g_reg)
int nni_dialer_find(nni_dialer **dp, uint32_t id)
__CPROVER_requires(FRESH(dp, *dp) && VP_NO_LOCK_HELD)
__CPROVER_requires(g_reg == NULL || FRESH(g_reg, nni_dialer))
__CPROVER_requires(g_reg != NULL ==> ((int) g_u32 == DIALR->d_ref && DIALR->d_ref >= 1 && DIALR->d_ref < 0x7fffffff))
__CPROVER_assigns(*dp, g_idg_calls, g_idg_map, g_idg_id, VP_SYNC_GHOSTS)
__CPROVER_assigns(g_reg != NULL: DIALR->d_ref)
__CPROVER_ensures(VP_NO_LOCK_HELD)
__CPROVER_ensures(RV == 0 || RV == NNG_ENOENT)
__CPROVER_ensures((RV == 0) == (g_reg != NULL))
__CPROVER_ensures(RV == 0 ==> (*dp == DIALR && g_idg_calls == OLD(g_idg_calls) + 1 && g_idg_map == &dialers && g_idg_id == (uint64_t) id && DIALR->d_ref == (int) g_u32 + 1))
__CPROVER_ensures(RV != 0 ==> (*dp == OLD(*dp) && (g_reg != NULL ==> DIALR->d_ref == (int) g_u32)))
COVER(RV == 0) COVER(RV == NNG_ENOENT)
;
#define LISTR ((nni_listener *) g_reg)
int nni_listener_find(nni_listener **lp, uint32_t id)
__CPROVER_requires(FRESH(lp, *lp) && VP_NO_LOCK_HELD)
__CPROVER_requires(g_reg == NULL || FRESH(g_reg, nni_listener))
__CPROVER_requires(g_reg != NULL ==> ((int) g_u32 == LISTR->l_ref && LISTR->l_ref >= 1 && LISTR->l_ref < 0x7fffffff))
__CPROVER_assigns(*lp, g_idg_calls, g_idg_map, g_idg_id, VP_SYNC_GHOSTS)
__CPROVER_assigns(g_reg != NULL: LISTR->l_ref)
__CPROVER_ensures(VP_NO_LOCK_HELD)
__CPROVER_ensures(RV == 0 || RV == NNG_ENOENT)
__CPROVER_ensures((RV == 0) == (g_reg != NULL))
__CPROVER_ensures(RV == 0 ==> (*lp == LISTR && g_idg_calls == OLD(g_idg_calls) + 1 && g_idg_map == &listeners && g_idg_id == (uint64_t) id && LISTR->l_ref == (int) g_u32 + 1))
__CPROVER_ensures(RV != 0 ==> (*lp == OLD(*lp) && (g_reg != NULL ==> LISTR->l_ref == (int) g_u32)))
COVER(RV == 0) COVER(RV == NNG_ENOENT)
;


/* ================================================================ pipe_create
 * C18: the pipe's id is the one the allocator issued from `pipes` (range
 * 1..0x7fffffff fixed by the static initialiser) for exactly this pipe.  C20 / C03: when the block cannot be allocated nothing happened; any
 * later failure (id, transport p_init, protocol pipe_init) closes the pipe and
 * hands it to the reaper exactly once, with exactly the reaper's reference
 * left -- pipe_reap (modules/endpoint) then removes the id (if one was issued:
 * p_id != 0), takes the pipe off the lists and drops that reference, which
 * runs pipe_destroy (unit pipe_rele).  Until then the registered pipe is a
 * live object: no map entry points at released memory. */
#define PSZ(sock) (NNI_ALIGN_UP(sizeof(nni_pipe)) + NNI_ALIGN_UP((sock)->s_pipe_ops.pipe_size) + NNI_ALIGN_UP(g_tsize))
#define NP (*pp)
#define CP ((nni_pipe *) g_tinit_pipe)
#define PC_CREATED (g_tinit_calls == OLD(g_tinit_calls) + 1)
static int pipe_create(nni_pipe **pp, nni_sock *sock, nni_sp_tran *tran, nni_dialer *d, nni_listener *l)
__CPROVER_requires(FRESH(pp, *pp) && FRESH(sock, SOCKT) && FRESH(tran, nni_sp_tran) && FRESH(tran->tran_pipe, nni_sp_pipe_ops) && VP_NO_LOCK_HELD && SC_RANGE(pipes))
__CPROVER_requires(tran->tran_pipe->p_size == vp_tran_pipe_size && tran->tran_pipe->p_init == vp_tran_pipe_init && sock->s_pipe_ops.pipe_init == vp_proto_pipe_init \
    /* BOUND (tool): no private areas, the block is exactly a struct nni_pipe (see CTX_SHAPE in modules/sockcore) */ \
    && sock->s_pipe_ops.pipe_size == 0 && g_tsize == 0)
/* exactly one of dialer / listener (the callers nni_pipe_alloc_dialer / _listener) */
__CPROVER_requires(g_sole_c ? (l == NULL && FRESH(d, nni_dialer)) : (d == NULL && FRESH(l, nni_listener)))
__CPROVER_requires(sock->s_pipes.ll_offset == offsetof(nni_pipe, p_sock_node) && TAIL_PRE(sock->s_pipes, g_sole_a))
__CPROVER_requires(d != NULL ==> (d->d_pipes.ll_offset == offsetof(nni_pipe, p_ep_node) && TAIL_PRE(d->d_pipes, g_sole_b)))
__CPROVER_requires(l != NULL ==> (l->l_pipes.ll_offset == offsetof(nni_pipe, p_ep_node) && TAIL_PRE(l->l_pipes, g_sole_b)))
__CPROVER_assigns(*pp, sock->s_pipes.ll_head.ln_prev, sock->s_pipes.ll_head.ln_prev->ln_next, pipes.id_count, G_IDA, VP_HEAP_GHOSTS, VP_SYNC_GHOSTS)
__CPROVER_assigns(g_tinit_calls, g_tinit_data, g_tinit_pipe, g_pinit_calls, g_pinit_data, g_pinit_pipe, g_pinit_sdata, g_reap_calls, g_reap_list, g_reap_item)
__CPROVER_assigns(d != NULL: d->d_pipes.ll_head.ln_prev, d->d_pipes.ll_head.ln_prev->ln_next)
__CPROVER_assigns(l != NULL: l->l_pipes.ll_head.ln_prev, l->l_pipes.ll_head.ln_prev->ln_next)
__CPROVER_ensures(VP_NO_LOCK_HELD)
/* the block could not be allocated: NNG_ENOMEM, nothing happened */
__CPROVER_ensures(!PC_CREATED ==> (RV == NNG_ENOMEM && *pp == OLD(*pp) && g_tinit_calls == OLD(g_tinit_calls) && g_pinit_calls == OLD(g_pinit_calls) && g_reap_calls == OLD(g_reap_calls) \
    && VP_HEAP_DELTA(0, 0) && g_ida_calls == OLD(g_ida_calls) && sock->s_pipes.ll_head.ln_prev == OLD(sock->s_pipes.ll_head.ln_prev)))
/* otherwise a pipe CP exists: sized block, both initialisers ran once on their areas inside the block, linked to socket and endpoint */
__CPROVER_ensures(PC_CREATED ==> (CP->p_size == PSZ(sock) && __CPROVER_OBJECT_SIZE(CP) == PSZ(sock) && __CPROVER_POINTER_OFFSET(CP) == 0 && VP_HEAP_DELTA(1, 0) && g_ida_calls == OLD(g_ida_calls) + 1 && g_ida_map == &pipes && g_ida_val == (void *) CP))
__CPROVER_ensures(PC_CREATED ==> (g_pinit_calls == OLD(g_pinit_calls) + 1 && g_pinit_pipe == CP && g_pinit_sdata == sock->s_data \
    && g_pinit_data == (void *) ((uint8_t *) CP + NNI_ALIGN_UP(sizeof(nni_pipe))) && g_tinit_data == (void *) ((uint8_t *) g_pinit_data + NNI_ALIGN_UP(sock->s_pipe_ops.pipe_size)) \
    && CP->p_proto_data == g_pinit_data && CP->p_tran_data == g_tinit_data))
__CPROVER_ensures(PC_CREATED ==> (CP->p_sock == sock && CP->p_dialer == d && CP->p_listener == l && CP->p_last_event == NNG_PIPE_EV_NONE \
    && CP->p_refcnt.rc_fini == pipe_destroy && CP->p_refcnt.rc_data == (void *) CP && APPENDED(sock->s_pipes, CP->p_sock_node)))
__CPROVER_ensures((PC_CREATED && d != NULL) ==> APPENDED(d->d_pipes, CP->p_ep_node))
__CPROVER_ensures((PC_CREATED && l != NULL) ==> APPENDED(l->l_pipes, CP->p_ep_node))
/* the id: none (0, map untouched) when the allocator refused, otherwise the issued one, registered for exactly this pipe, in range */
__CPROVER_ensures((PC_CREATED && g_ida_fail) ==> (RV == NNG_ENOMEM && CP->p_id == 0))
__CPROVER_ensures((PC_CREATED && !g_ida_fail) ==> (CP->p_id == g_ida_issued && SC_ID_OK(CP->p_id)))
/* success iff all three steps succeeded: handed out open, with the caller's and the socket's reference */
__CPROVER_ensures(RV == 0 ==> (PC_CREATED && *pp == CP && CP->p_id != 0 && g_tinit_rv == 0 && g_pinit_rv == 0 && PREF(CP) == 2 && !SC_FLAG(CP->p_closed) && g_reap_calls == OLD(g_reap_calls)))
__CPROVER_ensures((PC_CREATED && CP->p_id != 0 && g_tinit_rv == 0 && g_pinit_rv == 0) ==> RV == 0)
/* failure after creation: first error reported; closed, handed to the reaper exactly once, only the reaper's reference left; nothing handed out */
__CPROVER_ensures((PC_CREATED && RV != 0) ==> (*pp == OLD(*pp) && SC_FLAG(CP->p_closed) && PREF(CP) == 1 && g_reap_calls == OLD(g_reap_calls) + 1 && g_reap_item == (void *) CP && g_reap_list == &pipe_reap_list))
__CPROVER_ensures((PC_CREATED && RV != 0 && CP->p_id != 0) ==> RV == (g_tinit_rv != 0 ? g_tinit_rv : g_pinit_rv))
COVER(RV == 0) COVER(!PC_CREATED) COVER(PC_CREATED && CP->p_id == 0) COVER(PC_CREATED && RV != 0 && CP->p_id != 0 && g_tinit_rv == 0) COVER(RV == 0 && l != NULL)
;

/* ====================================================== pipe hold / release */
void nni_pipe_hold(nni_pipe *p)
__CPROVER_requires(FRESH(p, nni_pipe) && PREF(p) >= 1 && PREF(p) < 0x7fffffff)
__CPROVER_assigns(p->p_refcnt.rc_cnt)
__CPROVER_ensures(PREF(p) == OLD(PREF(p)) + 1)
;
/* the count drops by one; the pipe is destroyed exactly when the last
 * reference goes: protocol pipe_fini, then transport p_fini, each once, on
 * their areas, before the block is released once with its recorded size */
/* BOUND (tool): the block is exactly a struct nni_pipe (no private areas), see CTX_SHAPE */
#define PIPE_SHAPE(p) (__CPROVER_is_fresh(p, sizeof(nni_pipe)) && (p)->p_size == sizeof(nni_pipe) \
    && (p)->p_refcnt.rc_fini == pipe_destroy && ALIAS((void *) (p), (p)->p_refcnt.rc_data) && (p)->p_proto_ops.pipe_fini == vp_proto_pipe_fini && (p)->p_tran_ops.p_fini == vp_tran_pipe_fini)
void nni_pipe_rele(nni_pipe *p)
__CPROVER_requires(PIPE_SHAPE(p) && PREF(p) >= 1)
__CPROVER_assigns(p->p_refcnt.rc_cnt, g_pfini_calls, g_pfini_data, g_pfini_at_free, g_tfini_calls, g_tfini_data, g_tfini_at_free, g_free_calls)
__CPROVER_frees(p)
__CPROVER_ensures(OLD(PREF(p)) != 1 ==> (PREF(p) == OLD(PREF(p)) - 1 && !__CPROVER_was_freed(p) && VP_HEAP_DELTA(0, 0) && g_pfini_calls == OLD(g_pfini_calls) && g_tfini_calls == OLD(g_tfini_calls)))
__CPROVER_ensures(OLD(PREF(p)) == 1 ==> (__CPROVER_was_freed(p) && VP_HEAP_DELTA(0, 1) && g_pfini_calls == OLD(g_pfini_calls) + 1 && g_pfini_data == OLD(p->p_proto_data) && g_pfini_at_free == OLD(g_free_calls) \
    && g_tfini_calls == OLD(g_tfini_calls) + 1 && g_tfini_data == OLD(p->p_tran_data) && g_tfini_at_free == OLD(g_free_calls)))
COVER(OLD(PREF(p)) == 1) COVER(OLD(PREF(p)) == 2)
;

/* ============================================================ thin wrappers */
uint32_t nni_pipe_id(nni_pipe *p)
__CPROVER_requires(FRESH(p, nni_pipe)) __CPROVER_assigns() __CPROVER_ensures(RV == p->p_id)
;
bool nni_pipe_is_closed(nni_pipe *p)
__CPROVER_requires(FRESH(p, nni_pipe)) __CPROVER_assigns() __CPROVER_ensures(RV == SC_FLAG(p->p_closed))
;
void nni_pipe_send(nni_pipe *p, nni_aio *aio)
__CPROVER_requires(FRESH(p, nni_pipe) && p->p_tran_ops.p_send == vp_tran_pipe_send)
__CPROVER_assigns(g_tsend_calls, g_tsend_data, g_tsend_aio)
__CPROVER_ensures(g_tsend_calls == OLD(g_tsend_calls) + 1 && g_tsend_data == p->p_tran_data && g_tsend_aio == aio)
;
void nni_pipe_recv(nni_pipe *p, nni_aio *aio)
__CPROVER_requires(FRESH(p, nni_pipe) && p->p_tran_ops.p_recv == vp_tran_pipe_recv)
__CPROVER_assigns(g_trecv_calls, g_trecv_data, g_trecv_aio)
__CPROVER_ensures(g_trecv_calls == OLD(g_trecv_calls) + 1 && g_trecv_data == p->p_tran_data && g_trecv_aio == aio)
;
uint16_t nni_pipe_peer(nni_pipe *p)
__CPROVER_requires(FRESH(p, nni_pipe) && p->p_tran_ops.p_peer == vp_tran_pipe_peer)
__CPROVER_assigns(g_tpeer_calls, g_tpeer_data)
__CPROVER_ensures(RV == g_tpeer && g_tpeer_calls == OLD(g_tpeer_calls) + 1 && g_tpeer_data == p->p_tran_data)
;

/* =============================================== dialer / listener hold, rele
 * a hold is refused once the endpoint is closed; the count moves by exactly
 * one; the endpoint goes to the reaper exactly when the last reference of a
 * CLOSED endpoint is dropped (dialer_reap / listener_reap destroy it) */
int nni_dialer_hold(nni_dialer *d)
__CPROVER_requires(FRESH(d, nni_dialer) && VP_NO_LOCK_HELD && d->d_ref >= 0 && d->d_ref < 0x7fffffff)
__CPROVER_assigns(d->d_ref, VP_SYNC_GHOSTS)
__CPROVER_ensures(VP_NO_LOCK_HELD)
__CPROVER_ensures(d->d_closed ? (RV == NNG_ECLOSED && d->d_ref == OLD(d->d_ref)) : (RV == 0 && d->d_ref == OLD(d->d_ref) + 1))
;
void nni_dialer_rele(nni_dialer *d)
__CPROVER_requires(FRESH(d, nni_dialer) && VP_NO_LOCK_HELD && d->d_ref >= 1)
__CPROVER_assigns(d->d_ref, g_reap_calls, g_reap_list, g_reap_item, VP_SYNC_GHOSTS)
__CPROVER_ensures(VP_NO_LOCK_HELD && d->d_ref == OLD(d->d_ref) - 1 && g_free_calls == OLD(g_free_calls))
__CPROVER_ensures((d->d_ref == 0 && d->d_closed) ? (g_reap_calls == OLD(g_reap_calls) + 1 && g_reap_item == (void *) d && g_reap_list == &dialer_reap_list) : g_reap_calls == OLD(g_reap_calls))
;
int nni_listener_hold(nni_listener *l)
__CPROVER_requires(FRESH(l, nni_listener) && VP_NO_LOCK_HELD && l->l_ref >= 0 && l->l_ref < 0x7fffffff)
__CPROVER_assigns(l->l_ref, VP_SYNC_GHOSTS)
__CPROVER_ensures(VP_NO_LOCK_HELD)
__CPROVER_ensures(l->l_closed ? (RV == NNG_ECLOSED && l->l_ref == OLD(l->l_ref)) : (RV == 0 && l->l_ref == OLD(l->l_ref) + 1))
;
void nni_listener_rele(nni_listener *l)
__CPROVER_requires(FRESH(l, nni_listener) && VP_NO_LOCK_HELD && l->l_ref >= 1)
__CPROVER_assigns(l->l_ref, g_reap_calls, g_reap_list, g_reap_item, VP_SYNC_GHOSTS)
__CPROVER_ensures(VP_NO_LOCK_HELD && l->l_ref == OLD(l->l_ref) - 1 && g_free_calls == OLD(g_free_calls))
__CPROVER_ensures((l->l_ref == 0 && l->l_closed) ? (g_reap_calls == OLD(g_reap_calls) + 1 && g_reap_item == (void *) l && g_reap_list == &listener_reap_list) : g_reap_calls == OLD(g_reap_calls))
;
/* clang-format on */
#endif
