/* the three static id maps of pipe.c / dialer.c / listener.c are havocked too */
#define SC_HAVOC_MORE_MAPS() do { SC_HAVOC_MAP(pipes); SC_HAVOC_MAP(dialers); SC_HAVOC_MAP(listeners); } while (0)
