// RESPONDENT context: second nng_ctx_send while the first reply is still queued on a busy pipe.
#include <nng/nng.h>
#include <stdio.h>
#include <stdlib.h>
#include <string.h>
#include <unistd.h>
#include <arpa/inet.h>
#include <sys/socket.h>
#include <netinet/in.h>

static void wr(int fd, const void *b, size_t n) { if (write(fd, b, n) != (ssize_t) n) { perror("write"); exit(2);} }
static void send_req(int fd, uint32_t id)
{
	unsigned char f[8 + 4 + 4] = {0};
	f[7] = 8;                       // length 8 (big endian 64 bit)
	f[8] = 0x80 | (id >> 24); f[9] = id >> 16; f[10] = id >> 8; f[11] = id; // request id, high bit
	memcpy(f + 12, "ping", 4);
	wr(fd, f, sizeof f);
}
int main(void)
{
	nng_socket rep; nng_ctx ctx; nng_aio *a1, *a2, *a3, *a4; nng_msg *m; int rv;
	nng_init(NULL);
	if ((rv = nng_respondent0_open(&rep)) != 0) { printf("open %d\n", rv); return 2; }
	if ((rv = nng_listen(rep, "tcp://127.0.0.1:45673", NULL, 0)) != 0) { printf("listen %s\n", nng_strerror(rv)); return 2; }
	nng_ctx_open(&ctx, rep);
	nng_aio_alloc(&a1, NULL, NULL); nng_aio_alloc(&a2, NULL, NULL); nng_aio_alloc(&a3, NULL, NULL); nng_aio_alloc(&a4, NULL, NULL);

	// raw peer: plain TCP speaking SP, SURVEYOR (0x62); never reads replies
	int fd = socket(AF_INET, SOCK_STREAM, 0);
	struct sockaddr_in sa = {0}; sa.sin_family = AF_INET; sa.sin_port = htons(45673); sa.sin_addr.s_addr = htonl(INADDR_LOOPBACK);
	int small = 4096; setsockopt(fd, SOL_SOCKET, SO_RCVBUF, &small, sizeof small);
	if (connect(fd, (struct sockaddr *) &sa, sizeof sa) != 0) { perror("connect"); return 2; }
	unsigned char hs[8] = {0, 'S', 'P', 0, 0, 0x62, 0, 0}, in[8];
	wr(fd, hs, 8); if (read(fd, in, 8) != 8) { perror("hs"); return 2; }
	send_req(fd, 1); send_req(fd, 2); send_req(fd, 3);

	// 1. receive request 1, reply with a message too big for the socket buffers: pipe stays busy
	nng_ctx_recv(ctx, a1); nng_aio_wait(a1); printf("recv1 %d\n", nng_aio_result(a1)); nng_msg_free(nng_aio_get_msg(a1));
	nng_msg_alloc(&m, 64u << 20); nng_aio_set_msg(a1, m); nng_ctx_send(ctx, a1); nng_aio_wait(a1); printf("send1 %d (completed, pipe now busy)\n", nng_aio_result(a1));
	// 2. receive request 2, reply: queued behind the busy pipe (stays pending)
	nng_ctx_recv(ctx, a2); nng_aio_wait(a2); printf("recv2 %d\n", nng_aio_result(a2)); nng_msg_free(nng_aio_get_msg(a2));
	nng_msg_alloc(&m, 4); nng_aio_set_msg(a2, m); nng_ctx_send(ctx, a2); printf("send2 submitted (pending: %s)\n", nng_aio_busy(a2) ? "yes" : "no");
	// 3. receive request 3 while send 2 is pending, then send again
	nng_ctx_recv(ctx, a3); nng_aio_wait(a3); printf("recv3 %d\n", nng_aio_result(a3)); nng_msg_free(nng_aio_get_msg(a3));
	nng_msg_alloc(&m, 4); nng_aio_set_msg(a4, m); printf("send3 ...\n"); fflush(stdout);
	nng_ctx_send(ctx, a4);
	nng_msleep(200);
	printf("send3 submitted, busy=%d result=%d (%s)\n", nng_aio_busy(a4), nng_aio_busy(a4) ? -1 : nng_aio_result(a4), nng_aio_busy(a4) ? "" : nng_strerror(nng_aio_result(a4)));
	printf("send2 busy=%d\n", nng_aio_busy(a2));
	close(fd);
	nng_msleep(200);
	printf("after peer close: send2 busy=%d result=%d, send3 busy=%d\n", nng_aio_busy(a2), nng_aio_busy(a2) ? -1 : nng_aio_result(a2), nng_aio_busy(a4));
	return 0;
}
