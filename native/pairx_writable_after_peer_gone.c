// PAIR (v0 and v1) with a send buffer (NNG_OPT_SENDBUF > 0): the peer is connected and idle, so the socket is
// writable.  The peer goes away.  pairN_pipe_stop clears the send descriptor unconditionally
// (`if (s->wr_ready) { s->wr_ready = false; nni_pollable_clear(&s->writable); }`) although the send buffer still has
// room: a non-blocking send succeeds (the message is buffered) while the descriptor returned by
// nng_socket_get_send_poll_fd does not poll readable -> a poll()-driven sender never sends again until a new peer
// connects (C15: missed wake-up).
// Failing contract obligation: pair0_pipe_stop.postcondition.10 / pair1_pipe_stop.postcondition.10 (PX_POLL_INV) of
// modules/pairx.
// build: cc -I/repo/include pairx_writable_after_peer_gone.c -L<builddir> -lnng -Wl,-rpath,<builddir> -o /tmp/pairx_wr
// prints before the fix:  "... after the peer left: 0 / non-blocking send: 0 (Hunky dory)" and "DEFECT ..." twice, exit 1
// prints after the fix:   "... after the peer left: 1 / non-blocking send: 0" and "ok" twice, exit 0
#include <nng/nng.h>
#include <poll.h>
#include <stdio.h>
#include <string.h>

static int readable(int fd)
{
	struct pollfd p = { .fd = fd, .events = POLLIN };
	return (poll(&p, 1, 0) == 1 && (p.revents & POLLIN) != 0);
}

static int run(int v1)
{
	nng_socket  a, b;
	nng_msg    *m;
	int         fd, w0, w1, w2, rv;
	const char *url = v1 ? "inproc://pairx_wr1" : "inproc://pairx_wr0";

	if (v1) {
		nng_pair1_open(&a);
		nng_pair1_open(&b);
	} else {
		nng_pair0_open(&a);
		nng_pair0_open(&b);
	}
	nng_socket_set_int(a, NNG_OPT_SENDBUF, 4);
	nng_socket_get_send_poll_fd(a, &fd);
	w0 = readable(fd); // no peer, room in the buffer
	nng_listen(a, url, NULL, 0);
	nng_dial(b, url, NULL, 0);
	nng_msleep(100);
	w1 = readable(fd); // peer attached and idle
	nng_socket_close(b); // the peer goes away
	nng_msleep(200);
	w2 = readable(fd);
	nng_msg_alloc(&m, 0);
	nng_msg_append(m, "ping", 4);
	rv = nng_sendmsg(a, m, NNG_FLAG_NONBLOCK);
	if (rv != 0) {
		nng_msg_free(m);
	}
	printf("pair%d: send fd readable with no peer: %d, with an idle peer: %d, after the peer left: %d / non-blocking "
	       "send: %d (%s)\n",
	    v1, w0, w1, w2, rv, nng_strerror(rv));
	nng_socket_close(a);
	if (!w2 && rv == 0) {
		printf("DEFECT: nng_sendmsg(NNG_FLAG_NONBLOCK) succeeds but the send fd does not poll readable (missed "
		       "wake-up)\n");
		return (1);
	}
	printf("ok\n");
	return (0);
}

int main(void)
{
	int bad;
	nng_init(NULL);
	bad = run(0);
	bad |= run(1);
	return (bad);
}
