/* websocket: when the write of our CLOSE frame completes, ws_write_cb() empties
 * the transmit queue ("no other messages may succeed").  Frames that have a
 * submitter are completed with NNG_ECLOSED and released -- but frames WITHOUT
 * a submitter (control frames: a PONG queued in reply to the peer's PING, a
 * PING) are only unlinked from txq: ws_frame_fini() sits inside
 * `if ((aio = frame->aio) != NULL)`.  They are leaked (nobody else knows them;
 * ws_fini only releases what is still on txq).
 *
 * Reachable history: a data frame is being written (transmitter busy); the
 * peer sends a PING -> ws_read_frame_cb -> ws_send_control queues a PONG in
 * txq; the owner closes the stream -> ws_send_close puts the CLOSE frame in
 * FRONT of txq; the data frame completes, the CLOSE frame goes out; its
 * completion runs the branch above with the PONG still queued.
 *
 * The demo compiles the REAL websocket.c into this translation unit, builds
 * that state with the real constructors (ws_init, ws_msg_init_control) and
 * calls the real ws_write_cb() as the completion of the CLOSE frame, then
 * destroys the connection with the real ws_fini().
 *
 * Build (static libnng of the tree under test in $B, e.g. /tmp/b_wsrest after cmake+ninja):
 *   cc -g -fsanitize=address -I/repo/src -I/repo/include $(grep -o -- '-DNNG_[A-Z_0-9=]*' $B/build.ninja | sort -u) \
 *      -D_GNU_SOURCE -o /tmp/wsrest_write_cb_close_leaks_control /verif/native/wsrest_write_cb_close_leaks_control.c \
 *      $B/libnng_testing.a -lpthread
 * Run: ASAN_OPTIONS=detect_leaks=1 /tmp/wsrest_write_cb_close_leaks_control
 * Tree as found: the program prints its "ok" line, then LeakSanitizer reports "Direct leak of ... byte(s) in 1 object(s)" allocated
 *   through ws_msg_init_control (the PONG frame), exit status 23.
 * Repaired tree: only the "ok" line, exit status 0.
 */
#include "../../repo/src/supplemental/websocket/websocket.c"

#include <stdio.h>

/* set-up and the call under test live in their own frame, so that no stale
 * copy of the frame pointers stays on main's stack (LeakSanitizer would count
 * the block as still reachable) */
static __attribute__((noinline)) int
scenario(nni_ws *ws)
{
	ws_frame *closef, *pong;
	uint8_t   code[2] = { 0x03, 0xe8 };

	ws->ready  = true;
	ws->server = true;
	ws->closed = true; /* we initiated the close: ws_send_close */
	if (ws_msg_init_control(&closef, ws, WS_CLOSE, code, 2) != 0 || ws_msg_init_control(&pong, ws, WS_PONG, NULL, 0) != 0) {
		return (2);
	}
	ws->txframe = closef;            /* the CLOSE frame is in flight ... */
	nni_list_append(&ws->txq, pong); /* ... and a PONG waits behind it */

	ws_write_cb(ws); /* completion of the CLOSE frame's write */

	return ((!nni_list_empty(&ws->txq) || ws->txframe != NULL) ? 1 : 0);
}

static __attribute__((noinline)) void
scrub_stack(void)
{
	volatile char pad[4096];
	for (size_t i = 0; i < sizeof(pad); i++) {
		pad[i] = 0;
	}
}

int
main(void)
{
	nni_ws *ws;
	int     rv;

	if (nng_init(NULL) != 0 || ws_init(&ws) != 0) {
		printf("setup failed\n");
		return (2);
	}
	if ((rv = scenario(ws)) != 0) {
		printf(rv == 2 ? "setup failed\n" : "unexpected: transmit queue not emptied\n");
		return (rv);
	}
	scrub_stack();
	ws_fini(ws);
	printf("ok: close completed, transmit queue emptied (run under LeakSanitizer: no leak on the repaired tree)\n");
	return (0);
}
