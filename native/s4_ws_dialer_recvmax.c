/* Suspect 4: on the DIALING side of a ws:// connection NNG_OPT_RECVMAXSZ is
 * not enforced (and NNG_OPT_WS_SENDMAXFRAME is ignored), because
 * ws_dialer_dial() (src/supplemental/websocket/websocket.c) copies only
 * `maxframe` from the dialer into the new connection, not `recvmax` nor
 * `fragsize`.  A peer that we dialed can therefore make us assemble messages
 * of any size.
 *
 * Public API only, PAIR0 over ws://127.0.0.1.  Both sockets have
 * NNG_OPT_RECVMAXSZ = 100 (set before the endpoints are created, so both the
 * listener and the dialer inherit it; we read it back from the endpoints).
 *
 *  1. dialer   -> listener, 180 bytes in one frame       : must be dropped
 *  2. listener -> dialer,   180 bytes in one frame       : must be dropped
 *  3. listener -> dialer,   180 bytes as 50+50+50+30     : must be dropped
 *     (listener has NNG_OPT_WS_SENDMAXFRAME = 50, so every frame is small)
 *  4. NNG_OPT_WS_SENDMAXFRAME = 50 on the dialer, the listener accepts frames
 *     of at most 100 bytes (NNG_OPT_WS_RECVMAXFRAME) and messages of any
 *     size: a 180 byte message sent by the dialer must arrive (as 4 frames).
 *  5. sanity: 90 byte messages pass in both directions.
 *
 * Build:
 *   cc -g -I/repo/include -o /tmp/s4_ws_dialer_recvmax \
 *      /verif/native/s4_ws_dialer_recvmax.c -L/repo/_build -lnng -lpthread \
 *      -Wl,-rpath,/repo/_build
 * Run: /tmp/s4_ws_dialer_recvmax
 *
 * Observed BEFORE the fix (/repo 0bc5b64):
 *   1 dialer->listener 180 bytes, one frame: dropped (Timed out)  ok
 *   2 listener->dialer 180 bytes, one frame: RECEIVED 180 bytes with RECVMAXSZ=100  DEFECT
 *   3 listener->dialer 180 bytes, 50 byte frames: RECEIVED 180 bytes with RECVMAXSZ=100  DEFECT
 *   4 dialer SENDMAXFRAME=50 -> listener RECVMAXFRAME=100: not received (Timed out)  DEFECT (sent as one frame)
 *   5 90 bytes both ways: ok
 *   FAIL: 3 defects
 * Observed AFTER the fix (/repo "fix: websocket dialer must apply its receive
 * size limit and send frame size to the connections it creates"):
 *   1 dialer->listener 180 bytes, one frame: dropped (Timed out)  ok
 *   2 listener->dialer 180 bytes, one frame: dropped (Timed out)  ok
 *   3 listener->dialer 180 bytes, 50 byte frames: dropped (Timed out)  ok
 *   4 dialer SENDMAXFRAME=50 -> listener RECVMAXFRAME=100: received 180 bytes  ok
 *   5 90 bytes both ways: ok
 *   PASS
 */
#include <nng/nng.h>
#include <stdio.h>
#include <stdlib.h>
#include <string.h>

#define CHECK(x)                                                          \
	do {                                                              \
		int rv_ = (x);                                            \
		if (rv_ != 0) {                                           \
			printf("setup failed line %d: %s: %s\n", __LINE__, \
			    #x, nng_strerror(rv_));                       \
			exit(2);                                          \
		}                                                         \
	} while (0)

static int defects;

struct pair {
	nng_socket   ls, ds;
	nng_listener l;
	nng_dialer   d;
};

static void
setup(struct pair *p, size_t recvmax_l, size_t recvmax_d, size_t l_txframe,
    size_t d_txframe, size_t l_rxframe)
{
	char   url[64];
	int    port;
	size_t sz;

	CHECK(nng_pair0_open(&p->ls));
	CHECK(nng_pair0_open(&p->ds));
	CHECK(nng_socket_set_size(p->ls, NNG_OPT_RECVMAXSZ, recvmax_l));
	CHECK(nng_socket_set_size(p->ds, NNG_OPT_RECVMAXSZ, recvmax_d));
	CHECK(nng_socket_set_ms(p->ls, NNG_OPT_RECVTIMEO, 300));
	CHECK(nng_socket_set_ms(p->ds, NNG_OPT_RECVTIMEO, 300));
	CHECK(nng_socket_set_ms(p->ls, NNG_OPT_SENDTIMEO, 300));
	CHECK(nng_socket_set_ms(p->ds, NNG_OPT_SENDTIMEO, 300));
	CHECK(nng_listener_create(&p->l, p->ls, "ws://127.0.0.1:0/s4"));
	if (l_txframe) {
		CHECK(nng_listener_set_size(
		    p->l, NNG_OPT_WS_SENDMAXFRAME, l_txframe));
	}
	if (l_rxframe) {
		CHECK(nng_listener_set_size(
		    p->l, NNG_OPT_WS_RECVMAXFRAME, l_rxframe));
	}
	CHECK(nng_listener_start(p->l, 0));
	CHECK(nng_listener_get_int(p->l, NNG_OPT_BOUND_PORT, &port));
	snprintf(url, sizeof(url), "ws://127.0.0.1:%d/s4", port);
	CHECK(nng_dialer_create(&p->d, p->ds, url));
	if (d_txframe) {
		CHECK(nng_dialer_set_size(
		    p->d, NNG_OPT_WS_SENDMAXFRAME, d_txframe));
	}
	CHECK(nng_listener_get_size(p->l, NNG_OPT_RECVMAXSZ, &sz));
	if (sz != recvmax_l) {
		printf("listener RECVMAXSZ %zu\n", sz);
		exit(2);
	}
	CHECK(nng_dialer_get_size(p->d, NNG_OPT_RECVMAXSZ, &sz));
	if (sz != recvmax_d) {
		printf("dialer RECVMAXSZ %zu\n", sz);
		exit(2);
	}
	CHECK(nng_dialer_start(p->d, 0));
	nng_msleep(50);
}

static void
teardown(struct pair *p)
{
	nng_socket_close(p->ds);
	nng_socket_close(p->ls);
}

// send n bytes from one socket, try to receive on the other.
// returns number of bytes received, or -errno
static int
xfer(nng_socket from, nng_socket to, size_t n)
{
	static char out[1024];
	static char in[1024];
	size_t      sz = sizeof(in);
	int         rv;

	for (size_t i = 0; i < n; i++) {
		out[i] = (char) ('a' + i % 26);
	}
	CHECK(nng_send(from, out, n, 0));
	if ((rv = nng_recv(to, in, &sz, 0)) != 0) {
		return (-rv);
	}
	if (sz != n || memcmp(in, out, n) != 0) {
		printf("(corrupted data!) ");
		defects++;
	}
	return ((int) sz);
}

static void
must_drop(const char *what, nng_socket from, nng_socket to, size_t n)
{
	int r = xfer(from, to, n);
	if (r < 0) {
		printf("%s: dropped (%s)  ok\n", what, nng_strerror(-r));
	} else {
		printf("%s: RECEIVED %d bytes with RECVMAXSZ=100  DEFECT\n",
		    what, r);
		defects++;
	}
}

int
main(void)
{
	struct pair p;
	int         r;

	setvbuf(stdout, NULL, _IONBF, 0);
	CHECK(nng_init(NULL));

	setup(&p, 100, 100, 0, 0, 0);
	must_drop("1 dialer->listener 180 bytes, one frame", p.ds, p.ls, 180);
	teardown(&p);

	setup(&p, 100, 100, 0, 0, 0);
	must_drop("2 listener->dialer 180 bytes, one frame", p.ls, p.ds, 180);
	teardown(&p);

	setup(&p, 100, 100, 50, 0, 0);
	must_drop(
	    "3 listener->dialer 180 bytes, 50 byte frames", p.ls, p.ds, 180);
	teardown(&p);

	setup(&p, 0, 0, 0, 50, 100);
	r = xfer(p.ds, p.ls, 180);
	if (r == 180) {
		printf("4 dialer SENDMAXFRAME=50 -> listener RECVMAXFRAME=100: "
		       "received 180 bytes  ok\n");
	} else {
		printf("4 dialer SENDMAXFRAME=50 -> listener RECVMAXFRAME=100: "
		       "not received (%s)  DEFECT (sent as one frame)\n",
		    nng_strerror(-r));
		defects++;
	}
	teardown(&p);

	setup(&p, 100, 100, 50, 50, 0);
	if (xfer(p.ds, p.ls, 90) == 90 && xfer(p.ls, p.ds, 90) == 90) {
		printf("5 90 bytes both ways: ok\n");
	} else {
		printf("5 90 bytes both ways: FAILED\n");
		defects++;
	}
	teardown(&p);

	if (defects) {
		printf("FAIL: %d defects\n", defects);
		return (1);
	}
	printf("PASS\n");
	return (0);
}
