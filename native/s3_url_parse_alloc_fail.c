/* Suspect 3: nng_url_parse() of a URL that does not fit the 128 byte inline
 * buffer copies it with nni_strdup() and does not check the result
 * (nni_url_parse_inline_inner, src/core/url.c).  When that allocation fails
 * the parser writes through NULL + 3.
 *
 * The k-th allocation of nng_url_parse(long url) is failed for k = 1, 2, ...
 * (k=1: the nng_url structure, k=2: the copy of the URL); also for a long
 * ipc:// URL, and for nng_listen / nng_dial with a long URL (which parse it
 * through nni_url_parse_inline).  Each trial runs in a forked child.
 *
 * Build:
 *   cc -g -I/repo/include -o /tmp/s3_url_parse_alloc_fail \
 *      /verif/native/s3_url_parse_alloc_fail.c -L/repo/_build -lnng -lpthread \
 *      -Wl,-rpath,/repo/_build
 * Run: /tmp/s3_url_parse_alloc_fail
 *
 * Observed BEFORE the fix (/repo 82d4e89):
 *   parse http  k=1 returned Out of memory, clean
 *   parse http  k=2 CRASH signal 11
 *   parse ipc   k=1 returned Out of memory, clean
 *   parse ipc   k=2 returned 0 with u_path = 0x3   <-- "success", path is NULL + 3
 *   listen tcp  k=2 CRASH signal 11
 *   dial tcp    k=2 CRASH signal 11
 *   FAIL: 4 bad trials
 *
 * Observed AFTER the fix (/repo: "fix: URL parsing must report NNG_ENOMEM ..."):
 *   parse http k=2 / parse ipc k=2 / listen tcp k=2 / dial tcp k=2:
 *       k=2 returned Out of memory, clean
 *   PASS: every failed allocation gave a clean NNG_ENOMEM
 */
#include "../seeded/s37-req-ctxsend-idalloc-fail-keeps-lock/fa.h"

#include <sys/wait.h>

static char long_http[400];
static char long_ipc[400];
static char long_tcp[400];

#define X_CLEAN 0
#define X_DONE 10
#define X_BAD 11
#define X_LEAK 12

static int
trial(int what, long k)
{
	nng_url   *u = NULL;
	nng_socket s;
	int        rv, fired;

	fa_init(5);
	if (nng_pair0_open(&s) != 0) {
		return (X_BAD);
	}
	fa_where = "call";
	fa_arm(k);
	switch (what) {
	case 0:
		rv = nng_url_parse(&u, long_http);
		break;
	case 1:
		rv = nng_url_parse(&u, long_ipc);
		break;
	case 2:
		rv = nng_listen(s, long_tcp, NULL, 0);
		break;
	default:
		rv = nng_dial(s, long_tcp, NULL, NNG_FLAG_NONBLOCK);
		break;
	}
	fired = fa_disarm();
	if (!fired) {
		nng_url_free(u);
		nng_socket_close(s);
		return (X_DONE);
	}
	if (what < 2 && rv == 0) {
		if ((size_t) nng_url_path(u) < 4096) {
			printf("    returned 0 with u_path = %p\n",
			    (void *) nng_url_path(u));
			return (X_BAD);
		}
	}
	if (rv == 0 && u != NULL) {
		nng_url_free(u);
	}
	nng_socket_close(s);
	nng_fini();
	if (rv != 0 && rv != NNG_ENOMEM) {
		printf("    returned %d (%s)\n", rv, nng_strerror(rv));
		return (X_BAD);
	}
	if (fa_live_blocks != 0) {
		printf("    %ld blocks leaked\n", (long) fa_live_blocks);
		return (X_LEAK);
	}
	if (k <= 2) {
		printf("    k=%ld returned %s, clean\n", k, nng_strerror(rv));
	}
	return (X_CLEAN);
}

int
main(void)
{
	static const char *names[] = { "parse http", "parse ipc", "listen tcp",
		"dial tcp" };
	int                bad     = 0;

	setvbuf(stdout, NULL, _IONBF, 0);
	// > 128 bytes after the scheme
	snprintf(long_http, sizeof(long_http), "http://user@127.0.0.1:8080/%0200d?q=1#frag", 7);
	snprintf(long_ipc, sizeof(long_ipc), "ipc:///tmp/%0200d", 7);
	snprintf(long_tcp, sizeof(long_tcp), "tcp://127.0.0.1:38420/%0200d", 7);

	for (int w = 0; w < 4; w++) {
		for (long k = 1; k < 100; k++) {
			int   st;
			pid_t pid;
			printf("%s k=%ld\n", names[w], k);
			if ((pid = fork()) == 0) {
				_exit(trial(w, k));
			}
			waitpid(pid, &st, 0);
			if (WIFSIGNALED(st)) {
				printf("    CRASH signal %d\n", WTERMSIG(st));
				bad++;
			} else if (WEXITSTATUS(st) == X_DONE) {
				printf("    (no such allocation: %ld swept)\n",
				    k - 1);
				break;
			} else if (WEXITSTATUS(st) != X_CLEAN) {
				printf("    FAIL (%d)\n", WEXITSTATUS(st));
				bad++;
			}
		}
	}
	if (bad) {
		printf("FAIL: %d bad trials\n", bad);
		return (1);
	}
	printf("PASS: every failed allocation gave a clean NNG_ENOMEM\n");
	return (0);
}
