/* PUSH: a transport send that completed successfully just before its pipe closed runs push0_send_cb ->
 * push0_pipe_ready AFTER push0_pipe_close: the closed pipe is put on the ready list s->pl and stays there when
 * the pipe object is freed.  Observable: with NO peer connected an unbuffered PUSH socket reports writable and
 * accepts a non-blocking send (handing the message to freed memory: use-after-free under ASan).
 * The window is made deterministic by keeping both task threads busy while the pipe is closed.
 * build: cc -pthread -I/repo/include d23_push_closed_pipe_ready.c -L/repo/_build -lnng -Wl,-rpath,/repo/_build -o d23
 * exit status 1 = defect observed; on the defective code the last nng_send usually aborts instead
 * (nni_panic "pthread_mutex_lock" inside inproc_pipe_send on the freed pipe) */
#include <nng/nng.h>
#include <poll.h>
#include <stdio.h>
#include <string.h>
static nng_pipe push_pipe;
static volatile int have_pipe, blockers_running;
static void pipe_cb(nng_pipe p, nng_pipe_ev ev, void *arg) { (void) ev; (void) arg; push_pipe = p; have_pipe = 1; }
static void blocker(void *arg) { (void) arg; __sync_fetch_and_add(&blockers_running, 1); nng_msleep(400); }
int main(void)
{
	nng_init_params prm;
	nng_socket      push, pull;
	nng_aio        *b[2], *ra;
	int             fd, i, rv;
	memset(&prm, 0, sizeof(prm));
	prm.num_task_threads = 2;
	prm.max_task_threads = 2;
	nng_init(&prm);
	nng_push0_open(&push);
	nng_pull0_open(&pull);
	nng_pipe_notify(push, NNG_PIPE_EV_ADD_POST, pipe_cb, NULL);
	nng_socket_get_send_poll_fd(push, &fd);
	nng_listen(push, "inproc://d23", NULL, 0);
	nng_dial(pull, "inproc://d23", NULL, 0);
	while (!have_pipe) nng_msleep(10);
	nng_msleep(50);
	/* first message: taken by the puller's pending transport receive and HELD there (no re-arm) */
	nng_send(push, "x", 2, 0);
	nng_msleep(50);
	/* second message: handed to the pipe, its transport send stays pending (pipe busy, not on the ready list) */
	nng_send(push, "y", 2, 0);
	nng_msleep(50);
	/* occupy both task threads */
	for (i = 0; i < 2; i++) { nng_aio_alloc(&b[i], blocker, NULL); nng_sleep_aio(1, b[i]); }
	while (blockers_running < 2) nng_msleep(1);
	/* the puller takes "x": its pipe receive is re-armed, "y" moves, the pusher's transport send completes with
	 * success - its callback is queued behind the blockers */
	nng_aio_alloc(&ra, NULL, NULL);
	nng_socket_recv(pull, ra);
	/* the pusher's pipe is closed before that callback runs */
	nng_pipe_close(push_pipe);
	nng_msleep(1000);
	nng_socket_close(pull);
	nng_msleep(200);
	/* no peer is connected: an unbuffered PUSH socket is not writable and cannot accept anything */
	struct pollfd p = { .fd = fd, .events = POLLIN };
	int writable = poll(&p, 1, 0);
	rv = nng_send(push, "z", 2, NNG_FLAG_NONBLOCK);
	printf("no peer connected: send poll fd readable=%d, nng_send(NONBLOCK) rv=%d (%s)%s\n", writable, rv, nng_strerror(rv),
	    rv == 0 ? "  <-- accepted: the closed (freed) pipe was on the ready list" : "");
	return (rv == 0 || writable == 1);
}
