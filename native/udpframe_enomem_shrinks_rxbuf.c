/* udpframe_enomem_shrinks_rxbuf.c -- native demonstration (public API, pluggable allocator, one raw UDP socket)
 *
 * Defect: udp_recv_data() (src/sp/transport/udp/udp.c) chops the endpoint's receive
 * buffer ep->rx_payload down to the length of the datagram being delivered BEFORE it
 * allocates the message for it.  When that allocation fails (both the copy and the
 * zero-copy branch) it returns with the buffer still chopped.  The next receive is
 * armed with that short buffer: a larger datagram is truncated by the kernel, its
 * length field no longer fits, and its (innocent) sender is disconnected with
 * DISC(MSGSIZE).  One out-of-memory event on an EMPTY datagram leaves a 0-byte
 * buffer: from then on every non-empty message of every peer kills its connection.
 *
 * Scenario: pull0 listener; the allocator fails while a 0-length DATA datagram is
 * processed; then memory is available again and the peer sends "hello".
 *
 * Build:  cmake -S /repo -B $B -G Ninja -DNNG_TESTS=OFF -DNNG_TOOLS=OFF -DBUILD_SHARED_LIBS=OFF && ninja -C $B nng
 *         gcc -g -I/repo/include native/udpframe_enomem_shrinks_rxbuf.c $B/libnng.a -lpthread -o /tmp/udpframe_enomem
 * Before the fix:  recv: Timed out; peer got DISC reason 4   -> DEFECT, exit 1
 * After the fix:   recv: "hello"                             -> OK, exit 0
 */
#include <arpa/inet.h>
#include <netinet/in.h>
#include <poll.h>
#include <stdio.h>
#include <stdlib.h>
#include <string.h>
#include <sys/socket.h>
#include <unistd.h>

#include <nng/nng.h>

#define LPORT 38925
static volatile int fail_now, failed;
static void *my_malloc(size_t n) { if (fail_now) { failed++; return (NULL); } return (malloc(n)); }
static void *my_calloc(size_t a, size_t b) { if (fail_now) { failed++; return (NULL); } return (calloc(a, b)); }
static void  my_free(void *p, size_t n) { (void) n; free(p); }

static void
dgram(int fd, int op, int type, int p0, int p1, const char *body)
{
	unsigned char b[64] = { 1, (unsigned char) op, (unsigned char) type, (unsigned char) (type >> 8), (unsigned char) p0, (unsigned char) (p0 >> 8),
		(unsigned char) p1, (unsigned char) (p1 >> 8) };
	size_t        n     = body ? strlen(body) : 0;
	memcpy(b + 8, body ? body : "", n);
	(void) !send(fd, b, 8 + n, 0);
}

int
main(void)
{
	nng_init_params    prm;
	nng_socket         s;
	nng_listener       l;
	nng_msg           *m;
	char               url[64];
	int                rv;
	struct sockaddr_in a;
	int                fd = socket(AF_INET, SOCK_DGRAM, 0);
	unsigned char      r[16];
	struct pollfd      pfd;

	memset(&prm, 0, sizeof(prm));
	prm.malloc_fn = my_malloc;
	prm.calloc_fn = my_calloc;
	prm.free_fn   = my_free;
	if ((rv = nng_init(&prm)) != 0) {
		fprintf(stderr, "init: %s\n", nng_strerror(rv));
		return (2);
	}
	snprintf(url, sizeof(url), "udp://127.0.0.1:%d", LPORT);
	if ((rv = nng_pull0_open(&s)) != 0 || (rv = nng_socket_set_ms(s, NNG_OPT_RECVTIMEO, 1000)) != 0 ||
	    (rv = nng_listener_create(&l, s, url)) != 0 || (rv = nng_listener_start(l, 0)) != 0) {
		fprintf(stderr, "listener: %s\n", nng_strerror(rv));
		return (2);
	}
	memset(&a, 0, sizeof(a));
	a.sin_family      = AF_INET;
	a.sin_port        = htons(LPORT);
	a.sin_addr.s_addr = htonl(INADDR_LOOPBACK);
	if (fd < 0 || connect(fd, (void *) &a, sizeof(a)) != 0) {
		perror("peer");
		return (2);
	}
	dgram(fd, 1, 0x50, 65000, 5, NULL); /* CREQ */
	usleep(300000);
	pfd.fd     = fd;
	pfd.events = POLLIN;
	while (poll(&pfd, 1, 0) == 1) { /* swallow the CACK */
		(void) !recv(fd, r, sizeof(r), 0);
	}

	fail_now = 1;                      /* memory is exhausted ...                 */
	dgram(fd, 0, 0x50, 0, 0, NULL);    /* ... while an empty message arrives      */
	usleep(300000);
	fail_now = 0;                      /* memory is available again               */
	printf("allocations refused during the outage: %d\n", failed);

	dgram(fd, 0, 0x50, 5, 0, "hello"); /* a perfectly good 5 byte message */
	rv = nng_recvmsg(s, &m, 0);
	if (rv == 0) {
		printf("recv: \"%.*s\"\n", (int) nng_msg_len(m), (char *) nng_msg_body(m));
		nng_msg_free(m);
	} else {
		printf("recv: %s\n", nng_strerror(rv));
	}
	if (poll(&pfd, 1, 200) == 1 && recv(fd, r, sizeof(r), 0) == 8 && r[1] == 3) {
		printf("peer got DISC reason %d\n", r[4] | (r[5] << 8));
		rv = 1;
	}
	nng_socket_close(s);
	if (rv != 0) {
		printf("DEFECT: one allocation failure broke the receive buffer\n");
		return (1);
	}
	printf("OK\n");
	return (0);
}
