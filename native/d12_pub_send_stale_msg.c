/* D12: pub0_sock_send completes the caller's aio with success but leaves the pointer to the
 * message - which it has just released - on the aio.  Every other protocol clears it
 * (nni_aio_set_msg(aio, NULL)) before completing.  With no subscriber attached the message
 * is already destroyed when the completion runs, so nng_aio_get_msg() hands the application
 * a dangling pointer (touching it is a use after free: e.g. a "release whatever is still on
 * the aio" clean-up decrements the reference count inside freed memory).
 * build: cc -fsanitize=address -I/repo/include d12_pub_send_stale_msg.c -L/repo/_build -lnng -Wl,-rpath,/repo/_build
 * exit status 1 = defect present. */
#include <nng/nng.h>
#include <stdio.h>
int
main(void)
{
	nng_socket pub, bus;
	nng_aio   *aio;
	nng_msg   *m, *left;
	int        bad = 0;

	nng_init(NULL);
	nng_aio_alloc(&aio, NULL, NULL);

	/* reference behaviour: BUS0 (same best-effort broadcast, no peer attached) */
	nng_bus0_open(&bus);
	nng_msg_alloc(&m, 8);
	nng_aio_set_msg(aio, m);
	nng_socket_send(bus, aio);
	nng_aio_wait(aio);
	printf("bus0 : result=%d msg on aio after success=%p\n", nng_aio_result(aio), (void *) nng_aio_get_msg(aio));

	/* PUB with no subscriber: the message is released inside the call */
	nng_pub0_open(&pub);
	nng_msg_alloc(&m, 8);
	nng_aio_set_msg(aio, m);
	nng_socket_send(pub, aio);
	nng_aio_wait(aio);
	left = nng_aio_get_msg(aio);
	printf("pub0 : result=%d msg on aio after success=%p (sent %p)\n", nng_aio_result(aio), (void *) left, (void *) m);
	if (nng_aio_result(aio) == 0 && left != NULL) {
		printf("DEFECT: successful PUB send left a pointer to the released message on the aio\n");
		bad = 1;
	}
	nng_aio_free(aio);
	nng_socket_close(pub);
	nng_socket_close(bus);
	return (bad);
}
