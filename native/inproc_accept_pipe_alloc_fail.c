/* inproc: an allocation failure while a dialer is paired with a listener
 * (inproc_accept_clients) must give a clean error: no crash, no leak.
 *
 * A PAIR0 listener is bound to inproc://ipaf, a second PAIR0 socket dials it
 * (blocking nng_dial: inproc_ep_connect -> inproc_accept_clients run on the
 * calling thread).  For k = 1, 2, ... the k-th allocation made by nng_dial on
 * this thread is failed (fault-injecting allocator installed with
 * nng_init_params); afterwards both sockets are closed, the library is
 * finalised and the allocator must have got every block back.  Each trial runs
 * in a forked child (watchdog 5 s).
 *
 * Build:
 *   cc -g -I/repo/include -o /tmp/inproc_accept_pipe_alloc_fail \
 *      /verif/native/inproc_accept_pipe_alloc_fail.c -L/repo/_build -lnng \
 *      -lpthread -Wl,-rpath,/repo/_build
 * Run: /tmp/inproc_accept_pipe_alloc_fail         (all k)
 *      /tmp/inproc_accept_pipe_alloc_fail 7       (one trial in-process)
 * Exit status 1 = defect present, 0 = all injected failures handled cleanly.
 *
 * Prints before the fixes: "k=5 CRASH signal 11", "k=6 CRASH signal 11", "FAIL: 2 bad trials";
 * with 93be1d9 only: "k=6: 1 blocks (216 bytes) leaked", "FAIL: 1 bad trials";
 * with 93be1d9 + 21af0b0: "PASS: all injected failures were handled cleanly".
 *
 * What goes wrong on the tree as found:
 *   - when the pipe object of either side cannot be created AFTER its
 *     transport part was initialised (pipe_create fails on the pipe id or the
 *     protocol part), or when the listener side pipe cannot be allocated
 *     after the dialer side pipe was, the half-made pipe is closed:
 *     inproc_pipe_close dereferences pipe->pair, which is still NULL
 *     (SIGSEGV on the reap thread);
 *   - in the second case the inproc_pair keeps one of its two references for
 *     ever (neither pipe ever pointed to it): the block is leaked.
 */
#include "../seeded/s37-req-ctxsend-idalloc-fail-keeps-lock/fa.h"

#include <sys/wait.h>

#define X_CLEAN 0
#define X_DONE 10
#define X_WRONGRV 11
#define X_LEAK 12
#define X_IGNORED 13

static int
trial(long k)
{
	nng_socket srv, cli;
	int        rv, fired;

	fa_init(5);
	if (nng_pair0_open(&srv) != 0 || nng_pair0_open(&cli) != 0) {
		printf("    setup failed\n");
		return (X_WRONGRV);
	}
	if ((rv = nng_listen(srv, "inproc://ipaf", NULL, 0)) != 0) {
		printf("    listen failed: %s\n", nng_strerror(rv));
		return (X_WRONGRV);
	}
	fa_where = "nng_dial";
	fa_arm(k);
	rv    = nng_dial(cli, "inproc://ipaf", NULL, 0);
	fired = fa_disarm();
	if (!fired) {
		nng_socket_close(cli);
		nng_socket_close(srv);
		return (X_DONE);
	}
	// let the reaper act on whatever was closed
	nng_msleep(50);
	fa_where = "nng_socket_close after the failed dial";
	nng_socket_close(cli);
	nng_socket_close(srv);
	fa_where = "nng_fini";
	nng_fini();
	if (rv != 0 && rv != NNG_ENOMEM) {
		printf("    k=%ld returned %d (%s)\n", k, rv, nng_strerror(rv));
		return (X_WRONGRV);
	}
	if (fa_live_blocks != 0) {
		printf("    k=%ld: %ld blocks (%ld bytes) leaked\n", k,
		    (long) fa_live_blocks, (long) fa_live_bytes);
		return (X_LEAK);
	}
	return (rv == 0 ? X_IGNORED : X_CLEAN);
}

int
main(int argc, char **argv)
{
	int bad = 0;
	setvbuf(stdout, NULL, _IONBF, 0);
	if (argc == 2) {
		int x = trial(atol(argv[1]));
		printf("trial result %d\n", x);
		return (x == X_CLEAN || x == X_DONE || x == X_IGNORED ? 0 : 1);
	}
	for (long k = 1; k < 300; k++) {
		int   st;
		pid_t pid = fork();
		if (pid == 0) {
			_exit(trial(k));
		}
		waitpid(pid, &st, 0);
		if (WIFSIGNALED(st)) {
			printf("k=%ld CRASH signal %d\n", k, WTERMSIG(st));
			bad++;
		} else if (WEXITSTATUS(st) == X_DONE) {
			printf("%ld allocations swept\n", k - 1);
			break;
		} else if (WEXITSTATUS(st) == X_IGNORED) {
			printf("k=%ld failure tolerated, call succeeded\n", k);
		} else if (WEXITSTATUS(st) != X_CLEAN) {
			printf("k=%ld FAIL (%d)\n", k, WEXITSTATUS(st));
			bad++;
		}
	}
	if (bad) {
		printf("FAIL: %d bad trials\n", bad);
		return (1);
	}
	printf("PASS: all injected failures were handled cleanly\n");
	return (0);
}
