/* udpframe_stale_peer.c -- native demonstration (public API + two raw UDP sockets)
 *
 * Defect: udp_remove_pipe() (src/sp/transport/udp/udp.c) removes a pipe from the
 * endpoint's peer map by probing hash, hash+1, ... until it meets the pipe or a
 * FREE key.  Pipes whose peer addresses hash alike are stored on consecutive
 * keys, so removing the first one leaves a free key in front of the second:
 * the second pipe can no longer be found (its datagrams are "unknown peer") and,
 * worse, can no longer be REMOVED -- its map entry outlives the pipe object.
 * The next walk over the map (udp_timer_cb) or lookup that passes that key reads
 * the freed pipe.  nng_sockaddr_hash() of an IPv6 address is
 * addr[0..7] ^ addr[8..15] ^ port, so two peers choose colliding addresses at will
 * (and UDP source addresses can be forged): [::1]:40000 and [1::1]:40001 collide.
 *
 * Needs a second IPv6 address on loopback (root):  ip -6 addr add 1::1/128 dev lo
 *
 * Build (ASan build of libnng in $B):
 *   cmake -S /repo -B $B -G Ninja -DNNG_SANITIZER=address -DNNG_TESTS=OFF -DNNG_TOOLS=OFF -DBUILD_SHARED_LIBS=OFF && ninja -C $B nng
 *   gcc -fsanitize=address -g -I/repo/include native/udpframe_stale_peer.c $B/libnng.a -lpthread -o /tmp/udpframe_stale_peer
 * Before the fix:  AddressSanitizer: heap-use-after-free in udp_find_pipe / nng_sockaddr_equal (or udp_ep_close), exit != 0
 * After the fix:   prints "OK: no stale peer entry" (exit 0)
 */
#include <arpa/inet.h>
#include <netinet/in.h>
#include <stdio.h>
#include <stdlib.h>
#include <string.h>
#include <sys/socket.h>
#include <unistd.h>

#include <nng/nng.h>

#define LPORT 38917

static nng_pipe pipes[8];
static int      npipes;
static void
pipe_cb(nng_pipe p, nng_pipe_ev ev, void *arg)
{
	(void) arg;
	if (ev == NNG_PIPE_EV_ADD_POST && npipes < 8) {
		pipes[npipes++] = p;
	}
}

static int
peer_socket(const char *addr, int port)
{
	struct sockaddr_in6 a;
	int                 fd = socket(AF_INET6, SOCK_DGRAM, 0);
	memset(&a, 0, sizeof(a));
	a.sin6_family = AF_INET6;
	a.sin6_port   = htons(port);
	inet_pton(AF_INET6, addr, &a.sin6_addr);
	if (fd < 0 || bind(fd, (void *) &a, sizeof(a)) != 0) {
		perror(addr);
		exit(2);
	}
	memset(&a, 0, sizeof(a));
	a.sin6_family = AF_INET6;
	a.sin6_port   = htons(LPORT);
	/* talk to the listener through the address that makes the kernel keep our source address */
	inet_pton(AF_INET6, addr, &a.sin6_addr);
	if (connect(fd, (void *) &a, sizeof(a)) != 0) {
		perror("connect");
		exit(2);
	}
	return (fd);
}

static void
dgram(int fd, int op, int type, int p0, int p1)
{
	unsigned char b[8] = { 1, (unsigned char) op, (unsigned char) type, (unsigned char) (type >> 8), (unsigned char) p0, (unsigned char) (p0 >> 8),
		(unsigned char) p1, (unsigned char) (p1 >> 8) };
	if (send(fd, b, sizeof(b), 0) != 8) {
		perror("send");
	}
}

int
main(void)
{
	nng_socket   s;
	nng_listener l;
	char         url[64];
	int          rv;

	nng_init(NULL);
	if (getenv("DEMO_LOG")) { nng_log_set_logger(nng_stderr_logger); nng_log_set_level(NNG_LOG_DEBUG); }
	snprintf(url, sizeof(url), "udp6://[::]:%d", LPORT);
	if ((rv = nng_pull0_open(&s)) != 0 || (rv = nng_pipe_notify(s, NNG_PIPE_EV_ADD_POST, pipe_cb, NULL)) != 0 || (rv = nng_listener_create(&l, s, url)) != 0 || (rv = nng_listener_start(l, 0)) != 0) {
		fprintf(stderr, "listener: %s\n", nng_strerror(rv));
		return (2);
	}
	int a = peer_socket("::1", 40000);  /* hash h            */
	int b = peer_socket("1::1", 40001); /* hash h as well    */

	dgram(a, 1, 0x50, 65000, 1); /* CREQ from A (push0), refresh 1 s -> key h   */
	usleep(200000);
	dgram(b, 1, 0x50, 65000, 1); /* CREQ from B                     -> key h+1 */
	usleep(200000);
	dgram(a, 3, 0x50, 0, 0);     /* DISC from A: pipe A closed and removed: key h is free again */
	usleep(500000);
	/* the application closes B's pipe (second one accepted): udp_remove_pipe(B) probes key h, finds it
	 * free and gives up -- B's entry at key h+1 stays in the map while the pipe object is freed */
	if (npipes < 2) {
		fprintf(stderr, "expected two accepted pipes, got %d\n", npipes);
		return (2);
	}
	nng_pipe_close(pipes[1]);
	sleep(1);
	/* anything that wakes the timer or probes past key h now touches the freed pipe */
	dgram(a, 1, 0x50, 65000, 1); /* new CREQ from A's address: stored at key h, wakes the timer */
	usleep(300000);
	dgram(b, 0, 0x50, 0, 0);     /* DATA from B's address: lookup probes h (A', no match) then h+1 (freed B) */
	sleep(1);
	nng_socket_close(s);
	printf("OK: no stale peer entry\n");
	return (0);
}
