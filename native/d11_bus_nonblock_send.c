#include <nng/nng.h>
#include <stdio.h>
#include <string.h>
int main(void) {
    nng_socket b, p;
    nng_init(NULL);
    nng_bus0_open(&b);
    nng_pub0_open(&p);
    int rv1 = nng_send(b, "x", 1, NNG_FLAG_NONBLOCK);
    int rv2 = nng_send(p, "x", 1, NNG_FLAG_NONBLOCK);
    printf("bus nonblock send rv=%d (%s); pub nonblock send rv=%d\n", rv1, nng_strerror(rv1), rv2);
    /* raw: header trimmed although the send failed */
    nng_socket r; nng_msg *m;
    nng_bus0_open_raw(&r);
    nng_msg_alloc(&m, 0); nng_msg_header_append_u32(m, 0x80000001u);
    size_t before = nng_msg_header_len(m);
    int rv3 = nng_sendmsg(r, m, NNG_FLAG_NONBLOCK);
    printf("raw bus nonblock sendmsg rv=%d header_len before=%zu after=%zu\n", rv3, before, rv3 ? nng_msg_header_len(m) : 0);
    return (rv1 != 0);
}
