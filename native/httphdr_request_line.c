/* httphdr: http_req_parse_line (src/supplemental/http/http_msg.c) accepts a
 * request-line with an empty method (" / HTTP/1.1") or an empty
 * request-target ("GET  HTTP/1.1", served as "/"): status stays 200.
 * RFC 9112 3: request-line = method SP request-target SP HTTP-version, with
 * method = token (non-empty) and a non-empty target; invalid => 400.
 * Failing obligation: httphdr/req_parse_line
 * http_req_parse_line.postcondition.3 (malformed => 400, nothing stored).
 *
 * Build: cc -g -fsanitize=address -I/repo/include -I/repo/src -o /tmp/hh/request_line \
 *   /verif/native/httphdr_request_line.c /repo/_build/libnng_testing.a -lpthread
 * Run: /tmp/hh/request_line     exit status 1 = defect present, 0 = absent
 */
#include <nng/nng.h>
#include <nng/http.h>
#include <stdbool.h>
#include <stdio.h>
#include <string.h>
extern int nni_http_init(nng_http **, nng_stream *, bool);
extern int nni_http_req_parse(nng_http *, void *, size_t, size_t *);
extern void nni_http_conn_fini(nng_http *);

int
main(void)
{
	const char *bad[] = { " / HTTP/1.1\r\n\r\n", "GET  HTTP/1.1\r\n\r\n", NULL };
	int         defects = 0;
	nng_init(NULL);
	for (int i = 0; bad[i] != NULL; i++) {
		nng_http *c;
		char      buf[64];
		size_t    len = 0;
		int       rv;
		if (nni_http_init(&c, NULL, false) != 0) {
			return (2);
		}
		strcpy(buf, bad[i]);
		rv = nni_http_req_parse(c, buf, strlen(bad[i]), &len);
		int st = (int) nng_http_get_status(c);
		printf("\"%.*s\" -> rv=%d status=%d method=\"%s\" uri=\"%s\"%s\n", (int) strlen(bad[i]) - 4, bad[i], rv, st,
		    nng_http_get_method(c), nng_http_get_uri(c), (rv == 0 && st < 400) ? "   DEFECT (accepted)" : "");
		defects += (rv == 0 && st < 400);
		nni_http_conn_fini(c);
	}
	return (defects ? 1 : 0);
}
