/* httphdr: http_res_parse_line (src/supplemental/http/http_msg.c) takes the
 * status code with atoi(), so a status-line whose code is not exactly three
 * digits ("200x", "+200", "0200", "200.5") is accepted as a response.
 * RFC 9110 15: status-code = 3DIGIT; property C16 wants malformed status
 * lines refused.  Failing obligation: httphdr/res_parse_line
 * http_res_parse_line.postcondition.1 (RV == 0 ==> three digits).
 *
 * Build: cc -g -fsanitize=address -I/repo/include -I/repo/src -o /tmp/hh/status_line \
 *   /verif/native/httphdr_status_line.c /repo/_build/libnng_testing.a -lpthread
 * Run: /tmp/hh/status_line      exit status 1 = defect present, 0 = absent
 */
#include <nng/nng.h>
#include <nng/http.h>
#include <stdbool.h>
#include <stdio.h>
#include <string.h>
extern int nni_http_init(nng_http **, nng_stream *, bool);
extern int nni_http_res_parse(nng_http *, void *, size_t, size_t *);
extern void nni_http_conn_fini(nng_http *);

int
main(void)
{
	const char *bad[] = { "HTTP/1.1 200x OK\r\n\r\n", "HTTP/1.1 +200 OK\r\n\r\n",
		"HTTP/1.1 0200 OK\r\n\r\n", "HTTP/1.1 200.5 OK\r\n\r\n",
		"HTTP/1.1 2e2 OK\r\n\r\n", NULL };
	int         defects = 0;
	nng_init(NULL);
	for (int i = 0; bad[i] != NULL; i++) {
		nng_http *c;
		char      buf[64];
		size_t    len = 0;
		int       rv;
		if (nni_http_init(&c, NULL, true) != 0) {
			return (2);
		}
		strcpy(buf, bad[i]);
		rv = nni_http_res_parse(c, buf, strlen(bad[i]), &len);
		printf("%-28.*s -> rv=%d status=%d%s\n", (int) strlen(bad[i]) - 4, bad[i], rv,
		    (int) nng_http_get_status(c), rv == 0 ? "   DEFECT (accepted)" : "");
		defects += (rv == 0);
		nni_http_conn_fini(c);
	}
	return (defects ? 1 : 0);
}
