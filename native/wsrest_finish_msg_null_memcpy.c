/* websocket, message mode: an EMPTY data frame (payload length 0 -- e.g. an
 * empty message, which is legal) is queued by ws_read_cb with frame->buf ==
 * NULL (no payload buffer is set up when no payload is announced).
 * ws_read_finish_msg() then calls memcpy(body, frame->buf, frame->len), i.e.
 * memcpy(body, NULL, 0): undefined behaviour (C11 7.24.1p2: pointer arguments
 * must be valid even when n == 0; glibc declares them nonnull, compilers
 * exploit that).  Same class as the earlier ws_msg_init_control repair.
 *
 * The demo compiles the REAL websocket.c into this translation unit, makes a
 * connection object with the real ws_init(), queues one complete empty frame
 * exactly as ws_read_cb leaves it (NNI_ALLOC_STRUCT: all zero, final, BINARY)
 * and calls the real ws_str_recv() as nng_stream_recv() would.
 *
 * Build (static libnng of the tree under test in $B, e.g. /tmp/b_wsrest):
 *   cc -g -fsanitize=undefined -fno-sanitize-recover=undefined -I/repo/src -I/repo/include \
 *      $(grep -o -- '-DNNG_[A-Z_0-9=]*' $B/build.ninja | sort -u) -D_GNU_SOURCE \
 *      -o /tmp/wsrest_finish_msg_null_memcpy /verif/native/wsrest_finish_msg_null_memcpy.c $B/libnng_testing.a -lpthread
 * Prints, tree as found: "websocket.c:953: runtime error: null pointer passed as argument 2, which is declared to never be null" (abort)
 *         repaired tree: "ok: empty message delivered (length 0)"   exit 0
 */
#include "../../repo/src/supplemental/websocket/websocket.c"

#include <stdio.h>

int
main(void)
{
	nni_ws   *ws;
	ws_frame *frame;
	nng_aio  *aio;
	nng_msg  *msg;

	if (nng_init(NULL) != 0 || ws_init(&ws) != 0 || nng_aio_alloc(&aio, NULL, NULL) != 0) {
		printf("setup failed\n");
		return (2);
	}
	ws->ready    = true;
	ws->isstream = false; /* message mode */
	ws->rxframe  = (ws_frame *) ws; /* a read is "in flight": ws_start_read has nothing to do (no HTTP connection here) */

	frame        = NNI_ALLOC_STRUCT(frame); /* len 0, buf NULL: what ws_read_cb queues for an empty frame */
	frame->op    = WS_BINARY;
	frame->final = true;
	frame->hlen  = 2;
	nni_list_append(&ws->rxq, frame);

	ws_str_recv(ws, aio); /* what nng_stream_recv() calls */
	nng_aio_wait(aio);
	if (nng_aio_result(aio) != 0 || (msg = nng_aio_get_msg(aio)) == NULL || nng_msg_len(msg) != 0) {
		printf("unexpected result %d\n", nng_aio_result(aio));
		return (1);
	}
	nng_msg_free(msg);
	printf("ok: empty message delivered (length 0)\n");
	return (0);
}
