/* httpconn: nng_http_read_all() with three or more iov entries puts body bytes
 * into the wrong buffer when part of the body is already in the connection's
 * read buffer.
 *
 * http_rd_buf (src/supplemental/http/http_conn.c), flavours RAW/FULL, copies
 * the buffered bytes into the caller's vector, walking `iov` through the aio's
 * OWN array (nni_aio_get_iov hands out &aio->a_iov[0]).  After the loop
 *     nni_aio_set_iov(aio, nio, iov);            // shifts a_iov[k..] down to a_iov[0..]
 *     ...
 *     nni_aio_set_iov(&conn->rd_aio, nio, iov);  // iov still == &aio->a_iov[k]: stale
 * the second call reads the vector through the stale pointer, i.e. the
 * already shifted array at offset k.  With k >= 1 entries used up and more
 * than k entries left, the wire read is armed with the wrong entries (entry
 * j is what should be entry j+k), so bytes from the wire land in a later
 * buffer, some buffer is written twice and another is never filled, while the
 * operation still completes with the full count and result 0.
 *
 * Scenario (public API only): a raw TCP peer answers an HTTP request with the
 * response header, "Content-Length: 30", and the first 10 body bytes
 * "0123456789" in ONE write; the client reads the response (header parsed, the
 * 10 body bytes stay in the read buffer) and then asks nng_http_read_all for
 * the 30 body bytes into three buffers A[4], B[10], C[16].  The peer sends the
 * other 20 bytes "abcdefghijklmnopqrst" only after that.
 * Expected (C16: same body however the stream is split; no byte skipped,
 * duplicated or overwritten):  A="0123" B="456789abcd" C="efghijklmnopqrst".
 *
 * Build:
 *   cc -g -I/repo/include -o /tmp/httpconn_read_all_iov_shift \
 *      /verif/native/httpconn_read_all_iov_shift.c -L/repo/_build -lnng -lpthread \
 *      -Wl,-rpath,/repo/_build
 *   (or against a fresh build: -L/tmp/b_httpconn -Wl,-rpath,/tmp/b_httpconn)
 * Run: /tmp/httpconn_read_all_iov_shift
 *
 * Observed BEFORE the fix:
 *   read_all: result 0 count 30
 *   A="0123" B="456789...." C="qrstefghijklmnop"
 *   FAIL: body bytes misplaced (B never completed, C written twice)
 * Observed AFTER the fix:
 *   read_all: result 0 count 30
 *   A="0123" B="456789abcd" C="efghijklmnopqrst"
 *   PASS
 */
#include <nng/http.h>
#include <nng/nng.h>

#include <arpa/inet.h>
#include <netinet/in.h>
#include <poll.h>
#include <stdio.h>
#include <stdlib.h>
#include <string.h>
#include <sys/socket.h>
#include <unistd.h>

#define CHECK(x)                                                           \
	do {                                                               \
		int rv_ = (x);                                             \
		if (rv_ != 0) {                                            \
			printf("setup failed line %d: %s: %s\n", __LINE__, \
			    #x, nng_strerror(rv_));                        \
			exit(2);                                           \
		}                                                          \
	} while (0)

static void
wr(int fd, const char *s)
{
	size_t n = strlen(s);
	if (write(fd, s, n) != (ssize_t) n) {
		printf("setup failed: short write\n");
		exit(2);
	}
}

int
main(void)
{
	int                lfd, cfd;
	struct sockaddr_in sin;
	socklen_t          slen = sizeof(sin);
	char               urlbuf[64];
	nng_url           *url;
	nng_http_client   *cli;
	nng_http          *conn;
	nng_aio           *aio;
	char               req[2048];
	size_t             got = 0;

	CHECK(nng_init(NULL));

	/* raw TCP peer */
	lfd = socket(AF_INET, SOCK_STREAM, 0);
	memset(&sin, 0, sizeof(sin));
	sin.sin_family      = AF_INET;
	sin.sin_addr.s_addr = htonl(INADDR_LOOPBACK);
	sin.sin_port        = 0;
	if (bind(lfd, (struct sockaddr *) &sin, sizeof(sin)) != 0 ||
	    listen(lfd, 1) != 0 ||
	    getsockname(lfd, (struct sockaddr *) &sin, &slen) != 0) {
		perror("listen");
		return (2);
	}
	snprintf(urlbuf, sizeof(urlbuf), "http://127.0.0.1:%u/body",
	    (unsigned) ntohs(sin.sin_port));

	CHECK(nng_url_parse(&url, urlbuf));
	CHECK(nng_http_client_alloc(&cli, url));
	CHECK(nng_aio_alloc(&aio, NULL, NULL));
	nng_aio_set_timeout(aio, 3000);

	nng_http_client_connect(cli, aio);
	cfd = accept(lfd, NULL, NULL);
	nng_aio_wait(aio);
	CHECK(nng_aio_result(aio));
	conn = nng_aio_get_output(aio, 0);

	/* request out */
	CHECK(nng_http_set_uri(conn, "/body", NULL));
	nng_http_write_request(conn, aio);
	nng_aio_wait(aio);
	CHECK(nng_aio_result(aio));
	while (got < 4 || memcmp(req + got - 4, "\r\n\r\n", 4) != 0) {
		ssize_t r = read(cfd, req + got, sizeof(req) - got);
		if (r <= 0) {
			printf("setup failed: peer did not get the request\n");
			return (2);
		}
		got += (size_t) r;
	}

	/* response header and the first 10 body bytes in one segment */
	wr(cfd, "HTTP/1.1 200 OK\r\nContent-Length: 30\r\n\r\n0123456789");
	usleep(100000);
	nng_http_read_response(conn, aio);
	nng_aio_wait(aio);
	CHECK(nng_aio_result(aio));
	if (nng_http_get_status(conn) != 200) {
		printf("setup failed: status %d\n", (int) nng_http_get_status(conn));
		return (2);
	}

	/* body into three buffers */
	char    A[4 + 1], B[10 + 1], C[16 + 1];
	nng_iov iov[3];
	memset(A, '.', sizeof(A));
	memset(B, '.', sizeof(B));
	memset(C, '.', sizeof(C));
	A[4] = B[10] = C[16] = '\0';
	iov[0].iov_buf       = A;
	iov[0].iov_len       = 4;
	iov[1].iov_buf       = B;
	iov[1].iov_len       = 10;
	iov[2].iov_buf       = C;
	iov[2].iov_len       = 16;
	CHECK(nng_aio_set_iov(aio, 3, iov));
	nng_http_read_all(conn, aio);
	usleep(100000);
	wr(cfd, "abcdefghijklmnopqrst");
	nng_aio_wait(aio);

	printf("read_all: result %d count %zu\n", (int) nng_aio_result(aio),
	    nng_aio_count(aio));
	printf("A=\"%s\" B=\"%s\" C=\"%s\"\n", A, B, C);

	int ok = nng_aio_result(aio) == 0 && nng_aio_count(aio) == 30 &&
	    strcmp(A, "0123") == 0 && strcmp(B, "456789abcd") == 0 &&
	    strcmp(C, "efghijklmnopqrst") == 0;
	if (ok) {
		printf("PASS\n");
	} else {
		printf("FAIL: body bytes misplaced (B never completed, C written "
		       "twice)\n");
	}
	close(cfd);
	close(lfd);
	nng_http_close(conn);
	nng_aio_free(aio);
	nng_http_client_free(cli);
	nng_url_free(url);
	return (ok ? 0 : 1);
}
