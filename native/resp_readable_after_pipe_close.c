// RESPONDENT: the only pipe that holds an accepted (not yet received) request closes.
// resp0_pipe_close takes the pipe off s->recvpipes but leaves the socket's
// "readable" pollable raised: the recv poll descriptor keeps polling readable
// while a non-blocking receive returns NNG_EAGAIN (C15: busy loop).
// build: cc -I/repo/include resp_readable_after_pipe_close.c -L/repo/_build -lnng -Wl,-rpath,/repo/_build -o /tmp/resp_rd
#include <nng/nng.h>
#include <poll.h>
#include <stdio.h>
#include <string.h>

static int readable(int fd)
{
	struct pollfd p = { .fd = fd, .events = POLLIN };
	return (poll(&p, 1, 0) == 1 && (p.revents & POLLIN) != 0);
}

int main(void)
{
	nng_socket rep, req;
	nng_listener l;
	nng_msg   *m;
	int        fd, r0, r1, r2, rv;

	nng_init(NULL);
	nng_respondent0_open(&rep);
	nng_surveyor0_open(&req);
	nng_socket_get_recv_poll_fd(rep, &fd);
	nng_listen(rep, "inproc://resp_rd", &l, 0);
	nng_dial(req, "inproc://resp_rd", NULL, 0);
	nng_msleep(100);
	r0 = readable(fd);
	nng_msg_alloc(&m, 0);
	nng_msg_append(m, "poll", 4);
	nng_sendmsg(req, m, 0); // request travels to rep, nobody receives it yet
	nng_msleep(100);
	r1 = readable(fd);
	// the only pipe holding a request goes away (a remote disconnect is not noticed while no
	// receive is armed on the pipe, so the pipe is closed locally: listener shut down)
	nng_listener_close(l);
	nng_msleep(200);
	r2 = readable(fd);
	rv = nng_recvmsg(rep, &m, NNG_FLAG_NONBLOCK);
	printf("readable before request: %d, with request held: %d, after its pipe closed: %d\n", r0, r1, r2);
	printf("non-blocking receive after close: %d (%s)\n", rv, nng_strerror(rv));
	if (r2 && rv == NNG_EAGAIN) {
		printf("DEFECT: recv fd polls readable but nng_recvmsg(NNG_FLAG_NONBLOCK) returns NNG_EAGAIN\n");
		return (1);
	}
	printf("ok\n");
	return (0);
}
