/* nni_ctx_open on a socket that is shutting down (s_closing set, s_closed not
 * yet): the "paranoia" branch drops the new context's only reference with
 * nni_ctx_rele(), but the context is not marked closed, so nni_ctx_rele() does
 * NOT destroy it.  It stays registered in ctx_ids and linked on the socket's
 * s_ctxs list with reference count 0; nobody holds a handle to it (the caller
 * got NNG_ECLOSED), so nothing can ever close it -- and sock_close() waits for
 * s_ctxs to become empty: nng_socket_close() never returns (and the context
 * block is leaked).
 *
 * Reaching the window deterministically with the public API: a REM_POST pipe
 * callback runs in the reaper thread while nng_socket_close() of that socket
 * waits (in sock_shutdown) for the pipe to be removed; s_closing is set,
 * s_closed is not.  The callback calls nng_ctx_open() on the socket.
 *
 * Build:
 *   cc -g -I/repo/include -o /tmp/sockcore_ctx_open_closing \
 *      /verif/native/sockcore_ctx_open_closing.c -L<builddir> -lnng -lpthread \
 *      -Wl,-rpath,<builddir>
 * Prints BEFORE the fix:
 *   callback: nng_ctx_open during close -> 7 (Object closed)
 *   FAIL: nng_socket_close did not return within 5 s (hang)
 * exit 1.  AFTER the fix:
 *   callback: nng_ctx_open during close -> 7 (Object closed)
 *   OK: nng_socket_close returned 0
 * exit 0. */
#include <nng/nng.h>
#include <pthread.h>
#include <stdio.h>
#include <stdlib.h>
#include <unistd.h>

static nng_socket  req;
static volatile int cb_ran, cb_rv = -1, close_done, close_rv = -1;

static void
rem_post(nng_pipe p, nng_pipe_ev ev, void *arg)
{
	nng_ctx ctx;
	(void) p;
	(void) ev;
	(void) arg;
	/* let the closing thread get past its context sweep and wait for this pipe */
	nng_msleep(500);
	cb_rv  = nng_ctx_open(&ctx, req);
	cb_ran = 1;
	printf("callback: nng_ctx_open during close -> %d (%s)\n", cb_rv, nng_strerror(cb_rv));
	if (cb_rv == 0) {
		nng_ctx_close(ctx);
	}
}

static void *
closer(void *arg)
{
	(void) arg;
	close_rv   = nng_socket_close(req);
	close_done = 1;
	return (NULL);
}

int
main(void)
{
	nng_socket rep;
	pthread_t  t;
	int        i;

	setvbuf(stdout, NULL, _IONBF, 0);
	if (nng_init(NULL) != 0 || nng_rep0_open(&rep) != 0 || nng_req0_open(&req) != 0) {
		printf("setup failed\n");
		return (2);
	}
	if (nng_listen(rep, "inproc://sockcore_ctx_open_closing", NULL, 0) != 0 ||
	    nng_pipe_notify(req, NNG_PIPE_EV_REM_POST, rem_post, NULL) != 0 ||
	    nng_dial(req, "inproc://sockcore_ctx_open_closing", NULL, 0) != 0) {
		printf("setup failed\n");
		return (2);
	}
	nng_msleep(200); /* pipe is up (blocking dial) */
	pthread_create(&t, NULL, closer, NULL);
	for (i = 0; i < 50 && !close_done; i++) {
		nng_msleep(100);
	}
	if (!cb_ran) {
		printf("INCONCLUSIVE: the REM_POST callback did not run\n");
		return (2);
	}
	if (!close_done) {
		printf("FAIL: nng_socket_close did not return within 5 s (hang)\n");
		_exit(1);
	}
	printf("OK: nng_socket_close returned %d\n", close_rv);
	nng_socket_close(rep);
	return (cb_rv == 0 ? 2 : 0);
}
