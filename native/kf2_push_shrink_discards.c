/* KF2 (C06): shrinking NNG_OPT_SENDBUF on a PUSH socket below the number of messages it has already ACCEPTED
 * (nng_send returned 0 for each of them) silently discards the newest ones: push0_set_send_buf_len calls
 * nni_lmq_resize, which frees whatever does not fit the new depth.  No connection went down, no socket was closed.
 * build: cc -I/repo/include kf2_push_shrink_discards.c -L/repo/_build -lnng -Wl,-rpath,/repo/_build -o kf2
 * exit status 1 = accepted messages were lost */
#include <nng/nng.h>
#include <stdio.h>
#include <string.h>
int main(void)
{
	nng_socket push, pull;
	int        i, accepted = 0, got = 0, rv;
	char       buf[8];
	size_t     sz;
	nng_init(NULL);
	nng_push0_open(&push);
	nng_pull0_open(&pull);
	nng_socket_set_ms(pull, NNG_OPT_RECVTIMEO, 300);
	nng_socket_set_int(push, NNG_OPT_SENDBUF, 4);
	for (i = 0; i < 4; i++) {
		char c = (char) ('A' + i);
		if (nng_send(push, &c, 1, NNG_FLAG_NONBLOCK) == 0) {
			accepted++;
		}
	}
	rv = nng_socket_set_int(push, NNG_OPT_SENDBUF, 1);
	nng_listen(push, "inproc://kf2", NULL, 0);
	nng_dial(pull, "inproc://kf2", NULL, 0);
	for (;;) {
		sz = sizeof(buf);
		if (nng_recv(pull, buf, &sz, 0) != 0) {
			break;
		}
		got++;
	}
	printf("accepted %d, set SENDBUF 4->1 rv=%d, delivered %d\n", accepted, rv, got);
	return (got != accepted);
}
