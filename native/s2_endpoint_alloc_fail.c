/* Suspect 2: a failed allocation inside nng_listen / nng_dial must give a
 * clean error: no crash, no hang at nng_socket_close, no leak, no use of freed
 * memory.
 *
 * For each transport and for k = 1, 2, ... the k-th allocation made by
 *   L: nng_listen(s, url, NULL, 0)
 *   D: nng_dial(s, url, NULL, NNG_FLAG_NONBLOCK)
 * on a fresh SUB socket is failed; then the socket is closed and the library
 * finalised.  Each trial runs in a forked child (watchdog 5 s).
 *
 * Build:
 *   cc -g -I/repo/include -o /tmp/s2_endpoint_alloc_fail \
 *      /verif/native/s2_endpoint_alloc_fail.c -L/repo/_build -lnng -lpthread \
 *      -Wl,-rpath,/repo/_build
 * Run: /tmp/s2_endpoint_alloc_fail            (all transports, all k)
 *      /tmp/s2_endpoint_alloc_fail L tcp 7    (one trial in-process, e.g.
 *                                              under valgrind)
 *
 * Observed BEFORE the fixes (/repo 83e03ae):
 *   FAIL: watchdog: hang (deadlock) in step: nng_socket_close after the failed listen/dial
 *   L inproc   k=2 FAIL (1)
 *   L tcp      k=3 FAIL (1)          (same hang)
 *   L ipc      k=3 FAIL (1)          (same hang)
 *   L abstract k=3 FAIL (1)          (same hang)
 *   L ws       k=9 FAIL (1)          (same hang)
 *   FAIL: free of a pointer that is not a live allocation (double free or corruption)
 *   L udp      k=2 FAIL (1)
 *   L udp      k=3 CRASH signal 11
 *   L udp      k=4 CRASH signal 11
 *   L udp      k=5 FAIL (1)          (same hang)
 *   D inproc k=2, D tcp k=4, D ipc k=3, D abstract k=3, D ws k=8, D udp k=5:
 *                                     the same hang; D udp k=2,3,4 as L udp
 *   FAIL: 18 bad trials
 * The hanging k is always the growth of the process wide listener / dialer id
 * map (nni_id_alloc32 in nni_listener_init / nni_dialer_init): the endpoint
 * is already on the socket's s_listeners / s_dialers list (with the socket's
 * hold), the caller frees it, and sock_shutdown then loops forever on the
 * freed list head.  The udp ones are udp_ep_init freeing `ep` (which is
 * embedded in the listener) resp. freeing the tx ring that udp_ep_fini frees
 * again.
 *
 * Observed AFTER the fixes (/repo 976afd2 core, 82d4e89 udp):
 *   D ipc      k=4 failure tolerated, call succeeded
 *   D abstract k=4 failure tolerated, call succeeded
 *   D ws       k=9 failure tolerated, call succeeded
 *   PASS: all injected failures were handled cleanly
 * (tolerated: the asynchronous connect attempt of a non-blocking dial fails
 * and is retried later).  valgrind on single trials reports no errors.
 */
#include "../seeded/s37-req-ctxsend-idalloc-fail-keeps-lock/fa.h"

#include <sys/wait.h>

static const struct {
	const char *name;
	const char *url;
} trans[] = {
	{ "inproc", "inproc://s2_endpoint" },
	{ "tcp", "tcp://127.0.0.1:38417" },
	{ "ipc", "ipc:///tmp/s2_endpoint.ipc" },
	{ "abstract", "abstract://s2_endpoint" },
	{ "ws", "ws://127.0.0.1:38418/x" },
	{ "udp", "udp://127.0.0.1:38419" },
};
#define NTRANS (sizeof(trans) / sizeof(trans[0]))

#define X_CLEAN 0
#define X_DONE 10
#define X_WRONGRV 11
#define X_LEAK 12
#define X_IGNORED 13

static int
trial(char mode, const char *url, long k)
{
	nng_socket s, warm;
	int        rv, fired;

	fa_init(5);
	// Warm up process wide tables (socket ids etc.) with another socket
	// so that we only see the allocations of the endpoint itself.
	if (nng_pair0_open(&warm) != 0 || nng_sub0_open(&s) != 0) {
		printf("    setup failed\n");
		return (X_WRONGRV);
	}
	fa_where = "listen/dial";
	fa_arm(k);
	if (mode == 'L') {
		rv = nng_listen(s, url, NULL, 0);
	} else {
		rv = nng_dial(s, url, NULL, NNG_FLAG_NONBLOCK);
	}
	fired = fa_disarm();
	if (!fired) {
		nng_socket_close(s);
		nng_socket_close(warm);
		return (X_DONE);
	}
	fa_where = "nng_socket_close after the failed listen/dial";
	nng_socket_close(s);
	nng_socket_close(warm);
	fa_where = "nng_fini";
	nng_fini();
	if (rv != 0 && rv != NNG_ENOMEM) {
		printf("    returned %d (%s)\n", rv, nng_strerror(rv));
		return (X_WRONGRV);
	}
	if (fa_live_blocks != 0) {
		printf("    %ld blocks (%ld bytes) leaked\n",
		    (long) fa_live_blocks, (long) fa_live_bytes);
		return (X_LEAK);
	}
	return (rv == 0 ? X_IGNORED : X_CLEAN);
}

int
main(int argc, char **argv)
{
	int bad = 0;
	setvbuf(stdout, NULL, _IONBF, 0);
	if (argc == 4) {
		for (unsigned t = 0; t < NTRANS; t++) {
			if (strcmp(trans[t].name, argv[2]) == 0) {
				int x = trial(
				    argv[1][0], trans[t].url, atol(argv[3]));
				printf("trial result %d\n", x);
				return (x);
			}
		}
		return (2);
	}
	for (int m = 0; m < 2; m++) {
		char mode = "LD"[m];
		for (unsigned t = 0; t < NTRANS; t++) {
			for (long k = 1; k < 300; k++) {
				int   st;
				pid_t pid = fork();
				if (pid == 0) {
					_exit(trial(mode, trans[t].url, k));
				}
				waitpid(pid, &st, 0);
				if (WIFSIGNALED(st)) {
					printf("%c %-8s k=%ld CRASH signal %d\n",
					    mode, trans[t].name, k,
					    WTERMSIG(st));
					bad++;
				} else if (WEXITSTATUS(st) == X_DONE) {
					printf("%c %-8s %ld allocations "
					       "swept\n",
					    mode, trans[t].name, k - 1);
					break;
				} else if (WEXITSTATUS(st) == X_IGNORED) {
					printf("%c %-8s k=%ld failure "
					       "tolerated, call succeeded\n",
					    mode, trans[t].name, k);
				} else if (WEXITSTATUS(st) != X_CLEAN) {
					printf("%c %-8s k=%ld FAIL (%d)\n",
					    mode, trans[t].name, k,
					    WEXITSTATUS(st));
					bad++;
				}
			}
		}
	}
	if (bad) {
		printf("FAIL: %d bad trials\n", bad);
		return (1);
	}
	printf("PASS: all injected failures were handled cleanly\n");
	return (0);
}
