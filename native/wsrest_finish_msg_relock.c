/* websocket, message mode: when the message for a complete, queued set of
 * frames cannot be allocated, ws_read_finish_msg() reports NNG_ENOMEM to the
 * waiting receiver and fails the connection -- but it did so through
 * ws_close_error(), which LOCKS ws->mtx.  Every caller of ws_read_finish_msg
 * (ws_str_recv, ws_read_cb -> ws_read_frame_cb) already holds ws->mtx, and
 * nni_mtx is not recursive: the thread deadlocks on itself (the I/O callback
 * thread or the application thread calling nng_stream_recv), and the
 * connection's lock is never released again.
 *
 * The demo compiles the REAL src/supplemental/websocket/websocket.c into this
 * translation unit (so that its static functions can be driven directly) and
 * links everything else from libnng.  A connection object is made with the
 * real ws_init(); one complete data frame announcing SIZE_MAX/2 bytes is put
 * on the reassembly queue (the allocation of a message of that size fails
 * with NNG_ENOMEM without touching the payload); then the real ws_str_recv()
 * is called, exactly as nng_stream_recv() would.  (ws->closed is set so that
 * failing the connection does not try to write a close frame to the HTTP
 * connection this demo does not have; it plays no role in the defect.)
 *
 * Build (static libnng of the tree under test in $B, e.g. /tmp/b_wsrest after cmake+ninja):
 *   cc -g -I/repo/src -I/repo/include $(grep -o -- '-DNNG_[A-Z_0-9=]*' $B/build.ninja | sort -u) \
 *      -D_GNU_SOURCE -o /tmp/wsrest_finish_msg_relock /verif/native/wsrest_finish_msg_relock.c \
 *      $B/libnng_testing.a -lpthread
 * Tree as found (before c13a9cd):
 *   debug build of libnng (error-checking mutexes): "pthread_mutex_lock: Resource deadlock avoided",
 *     panic + abort (exit 134), backtrace ws_str_recv -> ws_read_finish -> ws_read_finish_msg -> ws_close_error -> nni_mtx_lock;
 *   release build: "DEFECT: ws_str_recv did not return within 3 s (ws->mtx locked twice by one thread)", exit 1.
 * Repaired tree: "ok: receiver completed with NNG_ENOMEM, connection closed, lock free", exit 0.
 */
#include "../../repo/src/supplemental/websocket/websocket.c"

#include <signal.h>
#include <stdio.h>
#include <unistd.h>

static void
watchdog(int sig)
{
	static const char m[] = "DEFECT: ws_str_recv did not return within 3 s (ws->mtx locked twice by one thread)\n";
	(void) sig;
	(void) !write(1, m, sizeof(m) - 1);
	_exit(1);
}

int
main(void)
{
	nni_ws   *ws;
	ws_frame *frame;
	nng_aio  *aio;
	int       rv;

	if (nng_init(NULL) != 0 || ws_init(&ws) != 0 || nng_aio_alloc(&aio, NULL, NULL) != 0) {
		printf("setup failed\n");
		return (2);
	}
	ws->ready    = true;
	ws->isstream = false; /* message mode */
	ws->closed   = true;  /* see header comment */

	frame        = NNI_ALLOC_STRUCT(frame);
	frame->op    = WS_BINARY;
	frame->final = true;
	frame->len   = SIZE_MAX / 2; /* nni_msg_alloc refuses: NNG_ENOMEM */
	frame->buf   = frame->sdata;
	nni_list_append(&ws->rxq, frame);

	signal(SIGALRM, watchdog);
	alarm(3);
	ws_str_recv(ws, aio); /* what nng_stream_recv() calls */
	alarm(0);

	nng_aio_wait(aio);
	rv = nng_aio_result(aio);
	if (pthread_mutex_trylock(&ws->mtx.mtx) != 0) {
		printf("DEFECT: ws->mtx still locked after ws_str_recv returned\n");
		return (1);
	}
	pthread_mutex_unlock(&ws->mtx.mtx);
	if (rv != NNG_ENOMEM) {
		printf("unexpected result %d (%s)\n", rv, nng_strerror(rv));
		return (1);
	}
	printf("ok: receiver completed with NNG_ENOMEM, connection closed, lock free\n");
	return (0);
}
