/* tls.c (SP over TLS): a failed transfer strands every aio queued behind the first one.
 *
 * The transport pipe operations p_recv / p_send queue any number of aios (recvq / sendq) and
 * keep ONE stream operation in flight, for the head of the queue.  When that operation fails,
 * tlstran_pipe_recv_cb / tlstran_pipe_send_cb complete the head with the error and return
 * WITHOUT starting another transfer ("Intentionally we do not queue up another receive").
 * Every aio behind the head stays queued with nothing in flight for it:
 *   - nobody will ever complete it;
 *   - cancelling it (nng_aio_cancel / nng_aio_stop / a timeout) runs tlstran_pipe_recv_cancel,
 *     which sees that it is now the FIRST of the queue, concludes "receive in progress", only
 *     aborts the idle rxaio (a no-op that merely poisons its next start) and returns: the aio is
 *     not completed.  nng_aio_stop / nng_aio_wait on it then block for ever.
 * ipc.c completes the whole queue in that situation (while loop in ipc_pipe_recv_cb/send_cb).
 *
 * This driver compiles the REAL /repo/src/sp/transport/tls/tls.c (textually included, so that the
 * static pipe operations can be called) against a static libnng (real aio / task / list code)
 * and a fake nng_stream whose pending operations are completed by the driver.
 *
 * Build (libnng must be a static build, any configuration; TLS support need not be enabled):
 *   cmake -S /repo -B /tmp/b_tlsframe -G Ninja -DBUILD_SHARED_LIBS=OFF && ninja -C /tmp/b_tlsframe nng
 *   cc -g -I/repo/src -I/repo/include $(grep -o -- '-D[N_][A-Za-z0-9_=]*' /tmp/b_tlsframe/build.ninja | sort -u | tr '\n' ' ') \
 *      -DVP_TLS_C='"/repo/src/sp/transport/tls/tls.c"' \
 *      -o /tmp/tlsframe_strand /verif/native/tlsframe_error_strands_queued_aio.c /tmp/b_tlsframe/libnng.a -lpthread
 * Run: /tmp/tlsframe_strand
 * Prints (tree as found, exit status 1):
 *   recv: a1 done=1 rv=Connection reset   a2 done=0      <- after the failed read
 *   recv: after nng_aio_cancel(a2): a2 done=0  STRANDED (nng_aio_stop(a2) would never return)
 *   send: ... same for the send side
 * Prints (repaired, exit status 0):
 *   recv: a1 done=1 rv=Connection reset   a2 done=1 rv=Connection reset
 *   send: b1 done=1 rv=Connection reset   b2 done=1 rv=Connection reset
 */
#ifndef VP_TLS_C
#define VP_TLS_C "/repo/src/sp/transport/tls/tls.c"
#endif
#include VP_TLS_C
#include "core/sockimpl.h" /* struct nni_pipe */

#include <stdio.h>
#include <stdlib.h>

/* ---- a fake byte stream: operations pend until the driver completes them ---- */
typedef struct {
	nng_stream ops; /* must be first */
	nni_mtx    mtx;
	nni_aio   *rx, *tx;
} fake_stream;

static void
fake_cancel(nni_aio *aio, void *arg, nng_err rv)
{
	fake_stream *s = arg;
	nni_mtx_lock(&s->mtx);
	if (s->rx == aio) {
		s->rx = NULL;
	} else if (s->tx == aio) {
		s->tx = NULL;
	} else {
		nni_mtx_unlock(&s->mtx);
		return;
	}
	nni_mtx_unlock(&s->mtx);
	nni_aio_finish_error(aio, rv);
}
static void
fake_recv(void *arg, nni_aio *aio)
{
	fake_stream *s = arg;
	nni_aio_reset(aio);
	nni_mtx_lock(&s->mtx);
	if (nni_aio_start(aio, fake_cancel, s)) {
		s->rx = aio;
	}
	nni_mtx_unlock(&s->mtx);
}
static void
fake_send(void *arg, nni_aio *aio)
{
	fake_stream *s = arg;
	nni_aio_reset(aio);
	nni_mtx_lock(&s->mtx);
	if (nni_aio_start(aio, fake_cancel, s)) {
		s->tx = aio;
	}
	nni_mtx_unlock(&s->mtx);
}
static void fake_nop(void *arg) { (void) arg; }
/* the peer resets the connection: the pending operation fails */
static void
fake_fail(fake_stream *s, bool tx, nng_err rv)
{
	nni_aio *aio;
	nni_mtx_lock(&s->mtx);
	aio = tx ? s->tx : s->rx;
	if (tx) {
		s->tx = NULL;
	} else {
		s->rx = NULL;
	}
	nni_mtx_unlock(&s->mtx);
	if (aio != NULL) {
		nni_aio_finish_error(aio, rv);
	}
}

static int done[4];
static int result[4];
static nng_aio *uaio[4];
static void
user_cb(void *arg)
{
	int i     = (int) (intptr_t) arg;
	result[i] = nng_aio_result(uaio[i]);
	done[i]   = 1;
}

int
main(void)
{
	fake_stream   fs;
	tlstran_pipe *p;
	tlstran_ep   *ep;
	nni_pipe     *np;
	int           bad = 0;
	nng_msg      *m1, *m2;

	nng_init(NULL);
	memset(&fs, 0, sizeof(fs));
	fs.ops.s_recv  = fake_recv;
	fs.ops.s_send  = fake_send;
	fs.ops.s_close = fake_nop;
	fs.ops.s_stop  = fake_nop;
	fs.ops.s_free  = fake_nop;
	nni_mtx_init(&fs.mtx);

	p  = calloc(1, sizeof(*p));
	ep = calloc(1, sizeof(*ep));
	np = calloc(1, sizeof(*np)); /* statistics sink only (no dialer, no listener) */
	nni_mtx_init(&ep->mtx);
	tlstran_pipe_init(p, np);
	p->tls = &fs.ops;
	p->ep  = ep;
	for (int i = 0; i < 4; i++) {
		nng_aio_alloc(&uaio[i], user_cb, (void *) (intptr_t) i);
	}

	/* two receivers queued on the pipe; the read for the first one fails */
	tlstran_pipe_recv(p, uaio[0]);
	tlstran_pipe_recv(p, uaio[1]);
	fake_fail(&fs, false, NNG_ECONNRESET);
	nng_msleep(100);
	printf("recv: a1 done=%d rv=%s   a2 done=%d", done[0], done[0] ? nng_strerror(result[0]) : "-", done[1]);
	if (done[1]) {
		printf(" rv=%s\n", nng_strerror(result[1]));
	} else {
		printf("\n");
		nng_aio_cancel(uaio[1]);
		nng_msleep(100);
		printf("recv: after nng_aio_cancel(a2): a2 done=%d%s\n", done[1],
		    done[1] ? "" : "  STRANDED (nng_aio_stop(a2) would never return)");
		bad |= !done[1];
	}

	/* same on the send side */
	nng_msg_alloc(&m1, 3);
	nng_msg_alloc(&m2, 3);
	nng_aio_set_msg(uaio[2], m1);
	nng_aio_set_msg(uaio[3], m2);
	tlstran_pipe_send(p, uaio[2]);
	tlstran_pipe_send(p, uaio[3]);
	fake_fail(&fs, true, NNG_ECONNRESET);
	nng_msleep(100);
	printf("send: b1 done=%d rv=%s   b2 done=%d", done[2], done[2] ? nng_strerror(result[2]) : "-", done[3]);
	if (done[3]) {
		printf(" rv=%s\n", nng_strerror(result[3]));
	} else {
		printf("\n");
		nng_aio_cancel(uaio[3]);
		nng_msleep(100);
		printf("send: after nng_aio_cancel(b2): b2 done=%d%s\n", done[3],
		    done[3] ? "" : "  STRANDED (nng_aio_stop(b2) would never return)");
		bad |= !done[3];
	}
	printf("%s\n", bad ? "DEFECT PRESENT" : "ok");
	/* no tear-down: stopping a stranded aio would hang */
	return (bad);
}
