/* D21: nni_msg_pull_up ignores the result of the in-place header insert.  With
 * room >= header length but no headroom and less than header+8 spare bytes the
 * insert has to reallocate; if that allocation fails the header is cleared
 * anyway and the message arrives WITHOUT its protocol header (here: a PAIR1
 * message over inproc whose first payload bytes look like a hop count).
 * Public API + allocator hooks only. */
#include <nng/nng.h>
#include <stdio.h>
#include <stdlib.h>
#include <string.h>
static volatile int armed, failed;
static void *my_malloc(size_t s) { if (armed && s >= 1000 && s < 1200) { failed++; return NULL; } return malloc(s); }
static void *my_calloc(size_t a, size_t b) { if (armed && a * b >= 1000 && a * b < 1200) { failed++; return NULL; } return calloc(a, b); }
static void my_free(void *p, size_t s) { (void) s; free(p); }
int main(void)
{
	nng_init_params prm; memset(&prm, 0, sizeof(prm));
	prm.malloc_fn = my_malloc; prm.calloc_fn = my_calloc; prm.free_fn = my_free;
	if (nng_init(&prm) != 0) return 2;
	nng_socket req, rep; nng_msg *m, *r = NULL;
	nng_pair1_open(&req); nng_pair1_open(&rep);
	nng_socket_set_ms(rep, NNG_OPT_RECVTIMEO, 1000);
	nng_listen(rep, "inproc://d21", NULL, 0); nng_dial(req, "inproc://d21", NULL, 0);
	nng_msleep(100);
	/* body of 1018 bytes in a 1024-byte buffer without headroom: room 6 >= 4 (header), < 12 */
	nng_msg_alloc(&m, 1024); memset(nng_msg_body(m), 'x', 1024); memcpy(nng_msg_body(m), "\0\0\0\1", 4); nng_msg_chop(m, 6);
	armed = 1;
	int rv = nng_sendmsg(req, m, 0);
	nng_msleep(200);
	int rv2 = nng_recvmsg(rep, &r, 0);
	armed = 0;
	printf("send rv=%d, allocations refused=%d, recv rv=%d\n", rv, failed, rv2);
	int bad = 0;
	if (rv2 == 0) {
		/* PAIR1 keeps its 4-byte hop header in front of the body on the wire */
		printf("received: header %zu bytes, body %zu bytes\n", nng_msg_header_len(r), nng_msg_len(r));
		if (nng_msg_len(r) != 1018) { printf("FAIL: body length %zu, sent 1018: the first 4 payload bytes were taken for the lost hop header: truncated message delivered\n", nng_msg_len(r)); bad = 1; }
	} else if (failed) {
		printf("message dropped or peer disconnected after the refused allocation (rv=%d)\n", rv2);
	}
	printf("%s\n", bad ? "FAIL" : "PASS");
	return bad;
}
