/* udpframe_recv_ignores_queue.c -- native demonstration (public API + one raw UDP socket)
 *
 * Defect: udp_pipe_recv() (src/sp/transport/udp/udp.c) queues the receive aio on
 * p->rx_aios without looking at the pipe's receive ring p->rx_mq.  A datagram that
 * arrived while no receive was posted sits in the ring; the receive posted
 * afterwards is not completed with it -- the message is handed over only when the
 * NEXT datagram arrives (udp_recv_data runs the hand-over loop), i.e. never if the
 * peer sends nothing more.
 *
 * Scenario: pull0 listener on udp://127.0.0.1; a raw UDP socket plays a push0 peer:
 * CREQ, then DATA "one", DATA "two" while the application does not receive
 * (pull0 holds "one" and posts no further pipe receive, so "two" lands in rx_mq).
 * Then the application receives twice with a 1 s timeout.
 *
 * Build:  cmake -S /repo -B $B -G Ninja -DNNG_TESTS=OFF -DNNG_TOOLS=OFF -DBUILD_SHARED_LIBS=OFF && ninja -C $B nng
 *         gcc -g -I/repo/include native/udpframe_recv_ignores_queue.c $B/libnng.a -lpthread -o /tmp/udpframe_recv_ignores_queue
 * Before the fix:  first recv: "one"; second recv: Timed out   -> "DEFECT: queued message not delivered", exit 1
 * After the fix:   first recv: "one"; second recv: "two"        -> "OK", exit 0
 */
#include <arpa/inet.h>
#include <netinet/in.h>
#include <stdio.h>
#include <stdlib.h>
#include <string.h>
#include <sys/socket.h>
#include <unistd.h>

#include <nng/nng.h>

#define LPORT 38919

static void
dgram(int fd, int op, int type, int p0, int p1, const char *body)
{
	unsigned char b[64] = { 1, (unsigned char) op, (unsigned char) type, (unsigned char) (type >> 8), (unsigned char) p0, (unsigned char) (p0 >> 8),
		(unsigned char) p1, (unsigned char) (p1 >> 8) };
	size_t        n     = body ? strlen(body) : 0;
	memcpy(b + 8, body ? body : "", n);
	if (send(fd, b, 8 + n, 0) != (ssize_t) (8 + n)) {
		perror("send");
	}
}

static int
recv_one(nng_socket s, char *out, size_t outsz)
{
	nng_msg *m;
	int      rv;
	if ((rv = nng_recvmsg(s, &m, 0)) != 0) {
		snprintf(out, outsz, "%s", nng_strerror(rv));
		return (rv);
	}
	snprintf(out, outsz, "\"%.*s\"", (int) nng_msg_len(m), (char *) nng_msg_body(m));
	nng_msg_free(m);
	return (0);
}

int
main(void)
{
	nng_socket         s;
	nng_listener       l;
	char               url[64], r1[64], r2[64];
	int                rv, rv1, rv2;
	struct sockaddr_in a;
	int                fd = socket(AF_INET, SOCK_DGRAM, 0);

	nng_init(NULL);
	snprintf(url, sizeof(url), "udp://127.0.0.1:%d", LPORT);
	if ((rv = nng_pull0_open(&s)) != 0 || (rv = nng_socket_set_ms(s, NNG_OPT_RECVTIMEO, 1000)) != 0 ||
	    (rv = nng_listener_create(&l, s, url)) != 0 || (rv = nng_listener_start(l, 0)) != 0) {
		fprintf(stderr, "listener: %s\n", nng_strerror(rv));
		return (2);
	}
	memset(&a, 0, sizeof(a));
	a.sin_family      = AF_INET;
	a.sin_port        = htons(LPORT);
	a.sin_addr.s_addr = htonl(INADDR_LOOPBACK);
	if (fd < 0 || connect(fd, (void *) &a, sizeof(a)) != 0) {
		perror("peer socket");
		return (2);
	}
	dgram(fd, 1, 0x50, 65000, 5, NULL); /* CREQ from a push0 peer */
	usleep(300000);
	dgram(fd, 0, 0x50, 3, 0, "one"); /* taken by pull0's pending pipe receive, held there */
	usleep(200000);
	dgram(fd, 0, 0x50, 3, 0, "two"); /* no pipe receive posted: stays in the transport's rx_mq */
	usleep(200000);

	rv1 = recv_one(s, r1, sizeof(r1)); /* "one"; pull0 now posts the next pipe receive */
	rv2 = recv_one(s, r2, sizeof(r2)); /* must be "two" -- it arrived long ago */
	printf("first recv: %s; second recv: %s\n", r1, r2);
	nng_socket_close(s);
	if (rv1 != 0 || rv2 != 0) {
		printf("DEFECT: queued message not delivered\n");
		return (1);
	}
	printf("OK\n");
	return (0);
}
