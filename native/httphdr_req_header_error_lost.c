/* httphdr: nni_http_req_parse (src/supplemental/http/http_msg.c) does not
 * leave its loop when http_parse_header fails: the result is overwritten by
 * the next http_scan_line, so a request with a field line that has no ':'
 * is accepted (rv 0, status 200) - nni_http_res_parse refuses the same line
 * with NNG_EPROTO - and an NNG_ENOMEM of the header store silently drops
 * that header (e.g. Transfer-Encoding).  Property C16 (malformed input is
 * refused, not delivered), C20.  Failing obligation: httphdr/req_parse_hdr_err
 * (header store failed or a field line had no ':' => result != 0).
 *
 * Build: cc -g -fsanitize=address -I/repo/include -I/repo/src -o /tmp/hh/req_hdr_err \
 *   /verif/native/httphdr_req_header_error_lost.c /repo/_build/libnng_testing.a -lpthread
 * Run: /tmp/hh/req_hdr_err      exit status 1 = defect present, 0 = absent
 */
#include <nng/nng.h>
#include <nng/http.h>
#include <stdbool.h>
#include <stdio.h>
#include <string.h>
extern int nni_http_init(nng_http **, nng_stream *, bool);
extern int nni_http_req_parse(nng_http *, void *, size_t, size_t *);
extern int nni_http_res_parse(nng_http *, void *, size_t, size_t *);
extern void nni_http_conn_fini(nng_http *);

int
main(void)
{
	const char *req = "GET / HTTP/1.1\r\nthis line has no colon\r\nHost: x\r\n\r\n";
	const char *res = "HTTP/1.1 200 OK\r\nthis line has no colon\r\nHost: x\r\n\r\n";
	nng_http   *c;
	char        buf[128];
	size_t      len = 0;
	int         rv1, rv2, st;
	nng_init(NULL);
	if (nni_http_init(&c, NULL, true) != 0) {
		return (2);
	}
	strcpy(buf, req);
	rv1 = nni_http_req_parse(c, buf, strlen(req), &len);
	st  = (int) nng_http_get_status(c);
	printf("request  with a field line without ':' -> rv=%d status=%d consumed=%zu of %zu\n", rv1, st, len, strlen(req));
	nni_http_conn_fini(c);
	if (nni_http_init(&c, NULL, false) != 0) {
		return (2);
	}
	strcpy(buf, res);
	rv2 = nni_http_res_parse(c, buf, strlen(res), &len);
	printf("response with a field line without ':' -> rv=%d\n", rv2);
	nni_http_conn_fini(c);
	if (rv1 == 0 && st < 400) {
		printf("DEFECT: malformed request accepted\n");
		return (1);
	}
	return (0);
}
