/* udpframe_idle_peer_never_expires.c -- native demonstration (public API + raw UDP sockets)
 *
 * Defect: udp_timer_cb() (src/sp/transport/udp/udp.c) recomputes the endpoint's
 * wake-up time from p->next_wake only.  For a pipe on the listener side next_wake is
 * not advanced by the timer, so after the first wake-up it lies in the past: the
 * sleep duration becomes 0, then -1 (== NNG_DURATION_INFINITE) and the timer sleeps
 * forever (any other negative value would make it spin).  p->expire is never
 * scheduled, so a peer that falls silent is never expired: its pipe and its slot in
 * the peer table (NNG_OPT_UDP_MAX_PEERS, default 1024) are held forever.  Connection
 * requests are 8 unauthenticated bytes with a forgeable source address: max_peers of
 * them make the listener refuse every later peer permanently.
 *
 * Scenario: pull0 listener, max peers 1.  One raw socket sends CREQ and falls silent (a new pipe
 * expires after 5 x the listener's refresh interval of 5 s = 25 s).  30 s later a second peer sends CREQ.
 * (With several peers connecting one after the other each new CREQ re-arms the timer, which hides the defect for a while.)
 *
 * Build:  cmake -S /repo -B $B -G Ninja -DNNG_TESTS=OFF -DNNG_TOOLS=OFF -DBUILD_SHARED_LIBS=OFF && ninja -C $B nng
 *         gcc -g -I/repo/include native/udpframe_idle_peer_never_expires.c $B/libnng.a -lpthread -o /tmp/udpframe_idle
 * Before the fix:  "after 30 s: pipes added=1 removed=0 / second peer: refused (DISC reason 8)"  DEFECT, exit 1
 * After the fix:   "after 30 s: pipes added=1 removed=1 / second peer: accepted"                OK, exit 0
 */
#include <arpa/inet.h>
#include <netinet/in.h>
#include <poll.h>
#include <stdio.h>
#include <stdlib.h>
#include <string.h>
#include <sys/socket.h>
#include <unistd.h>

#include <nng/nng.h>

#define LPORT 38923
static int nadd, nrem;
static void
cb(nng_pipe p, nng_pipe_ev ev, void *a)
{
	(void) p;
	(void) a;
	if (ev == NNG_PIPE_EV_ADD_POST) nadd++;
	if (ev == NNG_PIPE_EV_REM_POST) nrem++;
}
static int
peer(void)
{
	struct sockaddr_in a;
	int                fd = socket(AF_INET, SOCK_DGRAM, 0);
	memset(&a, 0, sizeof(a));
	a.sin_family      = AF_INET;
	a.sin_port        = htons(LPORT);
	a.sin_addr.s_addr = htonl(INADDR_LOOPBACK);
	if (fd < 0 || connect(fd, (void *) &a, sizeof(a)) != 0) {
		perror("peer");
		exit(2);
	}
	return (fd);
}
static void
creq(int fd)
{
	unsigned char b[8] = { 1, 1, 0x50, 0, 0xe8, 0xfd, 1, 0 }; /* CREQ, push0, recvmax 65000, refresh 1 s */
	(void) !send(fd, b, 8, 0);
}

int
main(void)
{
	nng_socket    s;
	nng_listener  l;
	char          url[64];
	int           rv;
	unsigned char r[16];
	struct pollfd pfd;

	nng_init(NULL);
	snprintf(url, sizeof(url), "udp://127.0.0.1:%d", LPORT);
	if ((rv = nng_pull0_open(&s)) != 0 || (rv = nng_pipe_notify(s, NNG_PIPE_EV_ADD_POST, cb, NULL)) != 0 ||
	    (rv = nng_pipe_notify(s, NNG_PIPE_EV_REM_POST, cb, NULL)) != 0 || (rv = nng_listener_create(&l, s, url)) != 0 ||
	    (rv = nng_listener_set_size(l, NNG_OPT_UDP_MAX_PEERS, 1)) != 0 || (rv = nng_listener_start(l, 0)) != 0) {
		fprintf(stderr, "listener: %s\n", nng_strerror(rv));
		return (2);
	}
	int a = peer(), c = peer();
	creq(a);
	sleep(30); /* both are silent for more than 5 x refresh */
	int expired = nrem;
	printf("after 30 s: pipes added=%d removed=%d\n", nadd, nrem);
	creq(c);
	pfd.fd     = c;
	pfd.events = POLLIN;
	int n      = (poll(&pfd, 1, 1000) == 1) ? (int) recv(c, r, sizeof(r), 0) : 0;
	int ok     = (n == 8 && r[1] == 2); /* CACK */
	if (ok) {
		printf("second peer: accepted\n");
	} else if (n == 8 && r[1] == 3) {
		printf("second peer: refused (DISC reason %d)\n", r[4] | (r[5] << 8));
	} else {
		printf("second peer: no answer\n");
	}
	nng_socket_close(s);
	if (!ok || expired != 1) {
		printf("DEFECT: silent peers are never expired\n");
		return (1);
	}
	printf("OK\n");
	return (0);
}
