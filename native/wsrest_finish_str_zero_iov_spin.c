/* websocket, stream mode: nng_aio_set_iov() accepts scatter/gather entries of
 * length 0.  When such an entry is the current one and a non-empty frame is
 * queued, the copy loop of ws_read_finish_str() computes n = 0, copies
 * nothing, does not advance the vector (that happens only under `n != 0`) and
 * does not consume the frame (frame->len != n): it spins for ever, with
 * ws->mtx held -- the calling thread (nng_stream_recv) or the I/O callback
 * thread (ws_read_cb) never returns and the connection is locked up.
 *
 * The demo compiles the REAL websocket.c into this translation unit, makes a
 * stream-mode connection object with the real ws_init(), queues one 5-byte
 * frame and calls the real ws_str_recv() (what nng_stream_recv() calls) with a
 * vector { zero-length entry, 16-byte buffer }.
 *
 * Build (static libnng of the tree under test in $B, e.g. /tmp/b_wsrest after cmake+ninja):
 *   cc -g -I/repo/src -I/repo/include $(grep -o -- '-DNNG_[A-Z_0-9=]*' $B/build.ninja | sort -u) -D_GNU_SOURCE \
 *      -o /tmp/wsrest_finish_str_zero_iov_spin /verif/native/wsrest_finish_str_zero_iov_spin.c $B/libnng_testing.a -lpthread
 * Tree as found: "DEFECT: ws_str_recv did not return within 3 s (copy loop spins on a zero-length iov entry)", exit 1
 * Repaired tree: "ok: 5 bytes received: hello", exit 0
 */
#include "../../repo/src/supplemental/websocket/websocket.c"

#include <signal.h>
#include <stdio.h>
#include <unistd.h>

static void
watchdog(int sig)
{
	static const char m[] = "DEFECT: ws_str_recv did not return within 3 s (copy loop spins on a zero-length iov entry)\n";
	(void) sig;
	(void) !write(1, m, sizeof(m) - 1);
	_exit(1);
}

int
main(void)
{
	nni_ws   *ws;
	ws_frame *frame;
	nng_aio  *aio;
	nng_iov   iov[2];
	char      buf[16] = { 0 };
	char      dummy;

	if (nng_init(NULL) != 0 || ws_init(&ws) != 0 || nng_aio_alloc(&aio, NULL, NULL) != 0) {
		printf("setup failed\n");
		return (2);
	}
	ws->ready    = true;
	ws->isstream = true;
	ws->rxframe  = (ws_frame *) ws; /* a read is "in flight": ws_start_read has nothing to do (no HTTP connection here) */

	frame        = NNI_ALLOC_STRUCT(frame);
	frame->op    = WS_BINARY;
	frame->final = true;
	frame->len   = 5;
	memcpy(frame->sdata, "hello", 5);
	frame->buf = frame->sdata;
	nni_list_append(&ws->rxq, frame);

	iov[0].iov_buf = &dummy;
	iov[0].iov_len = 0;
	iov[1].iov_buf = buf;
	iov[1].iov_len = sizeof(buf);
	if (nng_aio_set_iov(aio, 2, iov) != 0) {
		printf("nng_aio_set_iov refused the vector (then there is no defect to show)\n");
		return (0);
	}

	signal(SIGALRM, watchdog);
	alarm(3);
	ws_str_recv(ws, aio);
	alarm(0);
	nng_aio_wait(aio);
	if (nng_aio_result(aio) != 0 || nng_aio_count(aio) != 5 || memcmp(buf, "hello", 5) != 0) {
		printf("unexpected: result %d count %zu\n", nng_aio_result(aio), nng_aio_count(aio));
		return (1);
	}
	printf("ok: %zu bytes received: %.5s\n", nng_aio_count(aio), buf);
	return (0);
}
