/* PAIR (v0 and v1): growing NNG_OPT_SENDBUF while a sender waits (buffer full, no peer / peer busy) leaves that sender
 * waiting although the buffer now has room (send poll fd readable, a LATER send is accepted at once), and the later
 * message overtakes the earlier one on the one connection (C08: "messages are delivered in send order"; same shape as
 * the push defect d22).
 * Failing contract obligation: pairN_set_send_buf_len postconditions "waiting senders are admitted ..." and
 * PX_STABLE (modules/pairx).
 * build: cc -I/repo/include pairx_resize_waiting_sender.c -L<builddir> -lnng -Wl,-rpath,<builddir> -o /tmp/pairx_rs
 * before the fix: "A still waiting=1 ... arrival order: B A" for pair0 and pair1, exit 1
 * after the fix:  "A still waiting=0 ... arrival order: A B", exit 0 */
#include <nng/nng.h>
#include <poll.h>
#include <stdio.h>
#include <string.h>
static nng_msg *mk(const char *s) { nng_msg *m; nng_msg_alloc(&m, 0); nng_msg_append(m, s, strlen(s) + 1); return (m); }
static int run(int v1)
{
	nng_socket  a, b;
	nng_aio    *a1, *a2;
	int         fd;
	char        buf[16];
	size_t      sz;
	const char *url = v1 ? "inproc://pairx_rs1" : "inproc://pairx_rs0";
	if (v1) { nng_pair1_open(&a); nng_pair1_open(&b); } else { nng_pair0_open(&a); nng_pair0_open(&b); }
	nng_socket_set_ms(b, NNG_OPT_RECVTIMEO, 1000);
	nng_socket_get_send_poll_fd(a, &fd);
	nng_aio_alloc(&a1, NULL, NULL);
	nng_aio_alloc(&a2, NULL, NULL);
	/* unbuffered (the default), no peer: the first send waits */
	nng_aio_set_msg(a1, mk("A"));
	nng_socket_send(a, a1);
	nng_msleep(50);
	int busy1 = nng_aio_busy(a1);
	/* room for four messages now */
	int rvopt = nng_socket_set_int(a, NNG_OPT_SENDBUF, 4);
	nng_msleep(50);
	struct pollfd p = { .fd = fd, .events = POLLIN };
	int writable      = poll(&p, 1, 0);
	int still_waiting = nng_aio_busy(a1);
	/* a later send is accepted immediately */
	nng_aio_set_msg(a2, mk("B"));
	nng_socket_send(a, a2);
	nng_msleep(50);
	int b_done = !nng_aio_busy(a2) && nng_aio_result(a2) == 0;
	/* one connection: what arrives first? */
	nng_listen(a, url, NULL, 0);
	nng_dial(b, url, NULL, 0);
	sz = sizeof(buf); buf[0] = 0;
	int  rv1   = nng_recv(b, buf, &sz, 0);
	char first = buf[0];
	sz = sizeof(buf); buf[0] = 0;
	int  rv2    = nng_recv(b, buf, &sz, 0);
	char second = buf[0];
	printf("pair%d: A waiting=%d; set SENDBUF=4 rv=%d; send fd readable=%d; A still waiting=%d; B accepted=%d; arrival order: %c(rv %d) %c(rv %d)\n",
	    v1, busy1, rvopt, writable, still_waiting, b_done, first ? first : '-', rv1, second ? second : '-', rv2);
	nng_socket_close(a);
	nng_socket_close(b);
	return ((still_waiting && writable == 1) || first == 'B');
}
int main(void)
{
	int bad;
	nng_init(NULL);
	bad = run(0);
	bad |= run(1);
	if (bad) printf("DEFECT: a waiting sender is overtaken after the send buffer grew\n"); else printf("ok\n");
	return (bad);
}
