/* nng_stats_get / nni_stat_snapshot: when the allocation of a string copy fails (stat_update, statistic with
 * si_alloc: "stat string is allocated"), the snapshot is still returned with result 0 and the string statistic
 * silently has no value (nng_stat_string() == NULL for a statistic of type NNG_STAT_STRING whose registered value
 * is "hello").  C20: "If any single memory allocation fails during any public API call ... the affected call fails
 * cleanly with NNG_ENOMEM"; docs/ref/api/stats.md: nng_stats_get "may return NNG_ENOMEM if memory is exhausted".
 * Failing contract obligations (modules/stats, units stats_snapshot_*_fx): nni_stat_snapshot.postcondition
 * "RV == 0 ==> root is the snapshot of the root item" / allocation count, and the harness tree checks
 * "child is the snapshot of the registered child".
 * The real src/core/stats.c, list.c, strs.c are compiled here with a stub platform (mutex no-op, clock, allocator
 * that refuses the N-th request).  No statistic in the tree sets si_alloc today, so the public API cannot reach the
 * path; the registry code is exercised directly.
 * build: cc -g -fsanitize=address -DNNG_ENABLE_STATS -DNNG_PLATFORM_POSIX -DNNG_HAVE_STDATOMIC=1 -I/repo/src -I/repo/include \
 *           stats_snapshot_strdup_fail_silent.c -o /tmp/stats_sf && /tmp/stats_sf
 * before the fix: "fail request #3: rv=0 string=(null)  <-- success reported, value lost", exit 1
 * after the fix:  "fail request #3: rv=2 (NNG_ENOMEM) outstanding blocks=0", exit 0 */
#include <stdio.h>
#include <stdlib.h>
#include <string.h>
#include "core/nng_impl.h"
#include "core/list.c"
#include "core/strs.c"
#include "core/stats.c"

static int fail_at = -1, calls, live;
void *nni_alloc(size_t sz) { if (calls++ == fail_at) return (NULL); live++; return (malloc(sz)); }
void *nni_zalloc(size_t sz) { if (calls++ == fail_at) return (NULL); live++; return (calloc(1, sz)); }
void  nni_free(void *p, size_t sz) { (void) sz; if (p != NULL) { live--; free(p); } }
void  nni_plat_mtx_lock(nni_plat_mtx *m) { (void) m; }
void  nni_plat_mtx_unlock(nni_plat_mtx *m) { (void) m; }
void  nni_mtx_lock(nni_mtx *m) { (void) m; }
void  nni_mtx_unlock(nni_mtx *m) { (void) m; }
nni_time nni_clock(void) { return (1); }
uint64_t nni_atomic_get64(nni_atomic_u64 *a) { return (a->v); }
void     nni_atomic_set64(nni_atomic_u64 *a, uint64_t v) { a->v = v; }
void     nni_atomic_add64(nni_atomic_u64 *a, uint64_t v) { a->v += v; }
void     nni_atomic_sub64(nni_atomic_u64 *a, uint64_t v) { a->v -= v; }
void     nni_plat_printf(const char *f, ...) { (void) f; }
void     nni_panic(const char *f, ...) { (void) f; abort(); }
int      nng_socket_id(nng_socket s) { return ((int) s.id); }
int      nng_dialer_id(nng_dialer s) { return ((int) s.id); }
int      nng_listener_id(nng_listener s) { return ((int) s.id); }

static const nni_stat_info scope_info = { .si_name = "scope", .si_desc = "d", .si_type = NNG_STAT_SCOPE };
static const nni_stat_info name_info  = { .si_name = "name", .si_desc = "d", .si_type = NNG_STAT_STRING, .si_alloc = true };

int
main(void)
{
	nni_stat_item scope, name;
	int           bad = 0;
	nni_stat_init(&scope, &scope_info);
	nni_stat_init(&name, &name_info);
	nni_stat_add(&scope, &name);
	nni_stat_set_string(&name, "hello"); /* owned copy in the registry */
	nni_stat_register(&scope);
	int base = live;
	/* requests of one snapshot: #0 root, #1 scope, #2 name (nodes), #3 copy of "hello" */
	for (int f = 0; f < 5; f++) {
		nng_stat *st = NULL;
		calls        = 0;
		fail_at      = f;
		int rv       = nng_stats_get(&st);
		fail_at      = -1;
		if (rv == 0) {
			const nng_stat *n = nng_stat_find(st, "name");
			const char     *s = nng_stat_string(n);
			printf("fail request #%d: rv=0 string=%s%s\n", f, s ? s : "(null)",
			    (s == NULL || strcmp(s, "hello") != 0) ? "  <-- success reported, value lost" : "");
			bad |= (s == NULL || strcmp(s, "hello") != 0);
			nng_stats_free(st);
		} else {
			printf("fail request #%d: rv=%d (%s) outstanding blocks=%d\n", f, rv, rv == NNG_ENOMEM ? "NNG_ENOMEM" : "?", live - base);
			bad |= (rv != NNG_ENOMEM || live != base || st != NULL);
		}
	}
	nni_stat_unregister(&scope);
	return (bad);
}
