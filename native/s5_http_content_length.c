/* Suspect 5: the HTTP server validates the Content-Length of a request with
 *     if ((end == NULL) && (*end != '\0'))          (http_sconn_rxdone,
 * src/supplemental/http/http_server.c), which can never be true, so
 * "Content-Length: 12abc", "-1", "+3", "abc", or an overflowing number are all
 * accepted, and strtoull's idea of the value decides how many body bytes the
 * server consumes.
 *
 * An nng HTTP server (public API) with a POST handler on /echo that collects
 * the body (limit 1024) and answers 200 with "len=<n> body=<body>"; a raw TCP
 * client sends requests with odd Content-Length values, each on a new
 * connection, followed by 16 bytes "0123456789abcdef", and prints what the
 * server answered within 500 ms.
 *
 * RFC 9110 8.6: Content-Length = 1*DIGIT; a recipient MUST treat an invalid
 * value as an unrecoverable error, a server MUST answer 400 and close.
 *
 * Build:
 *   cc -g -I/repo/include -o /tmp/s5_http_content_length \
 *      /verif/native/s5_http_content_length.c -L/repo/_build -lnng -lpthread \
 *      -Wl,-rpath,/repo/_build
 * Run: /tmp/s5_http_content_length
 *
 * Observed BEFORE the fix (/repo e3532fd):
 *   Content-Length: "16"                       -> HTTP/1.1 200 OK | len=16 body=0123456789abcdef
 *   Content-Length: "12abc"                    -> HTTP/1.1 200 OK | len=12 body=0123456789ab         DEFECT
 *   Content-Length: "abc"                      -> HTTP/1.1 200 OK | len=0 body=                      DEFECT
 *   Content-Length: "-1"                       -> HTTP/1.1 413 Content Too Large                     DEFECT (taken as 2^64-1)
 *   Content-Length: "-18446744073709551612"    -> HTTP/1.1 200 OK | len=4 body=0123                  DEFECT
 *   Content-Length: "+4"                       -> HTTP/1.1 200 OK | len=4 body=0123                  DEFECT
 *   Content-Length: "0x10"                     -> HTTP/1.1 200 OK | len=0 body=                      DEFECT
 *   Content-Length: "99999999999999999999999"  -> HTTP/1.1 413 Content Too Large                     DEFECT (overflow, taken as 2^64-1)
 *   Content-Length: "4, 4"                     -> HTTP/1.1 200 OK | len=4 body=0123                  DEFECT
 *   Content-Length: "4 4"                      -> HTTP/1.1 200 OK | len=4 body=0123                  DEFECT
 *   FAIL: 9 invalid Content-Length values were not answered with 400
 * (and with a handler that does not collect the body, "-1" makes the server
 * try to discard 2^64-1 bytes after the response.)
 * Observed AFTER the fix: every invalid value -> HTTP/1.1 400 Bad Request, PASS.
 */
#include <nng/http.h>
#include <nng/nng.h>

#include <arpa/inet.h>
#include <netinet/in.h>
#include <poll.h>
#include <stdio.h>
#include <stdlib.h>
#include <string.h>
#include <sys/socket.h>
#include <unistd.h>

#define CHECK(x)                                                          \
	do {                                                              \
		int rv_ = (x);                                            \
		if (rv_ != 0) {                                           \
			printf("setup failed line %d: %s: %s\n", __LINE__, \
			    #x, nng_strerror(rv_));                       \
			exit(2);                                          \
		}                                                         \
	} while (0)

static void
echo(nng_http *conn, void *arg, nng_aio *aio)
{
	void  *body;
	size_t len;
	char   buf[1200];
	(void) arg;
	nng_http_get_body(conn, &body, &len);
	snprintf(buf, sizeof(buf), "len=%zu body=%.*s", len, (int) len,
	    len ? (char *) body : "");
	nng_http_copy_body(conn, buf, strlen(buf));
	nng_http_set_status(conn, NNG_HTTP_STATUS_OK, NULL);
	nng_aio_finish(aio, 0);
}

// returns 1 when the server answered 400
static int
probe(int port, const char *clen, int valid)
{
	struct sockaddr_in sin;
	char               req[512];
	char               res[2048];
	size_t             got = 0;
	int                fd;
	char              *body;
	char              *eol;
	struct pollfd      pfd;

	memset(&sin, 0, sizeof(sin));
	sin.sin_family      = AF_INET;
	sin.sin_port        = htons((unsigned short) port);
	sin.sin_addr.s_addr = htonl(INADDR_LOOPBACK);
	fd                  = socket(AF_INET, SOCK_STREAM, 0);
	if (connect(fd, (struct sockaddr *) &sin, sizeof(sin)) != 0) {
		perror("connect");
		exit(2);
	}
	snprintf(req, sizeof(req),
	    "POST /echo HTTP/1.1\r\nHost: localhost\r\nContent-Length: "
	    "%s\r\n\r\n0123456789abcdef",
	    clen);
	if (write(fd, req, strlen(req)) != (ssize_t) strlen(req)) {
		perror("write");
		exit(2);
	}
	pfd.fd     = fd;
	pfd.events = POLLIN;
	while (got < sizeof(res) - 1 && poll(&pfd, 1, 500) > 0) {
		ssize_t n = read(fd, res + got, sizeof(res) - 1 - got);
		if (n <= 0) {
			break;
		}
		got += (size_t) n;
	}
	close(fd);
	res[got] = '\0';
	{
		char q[64];
		snprintf(q, sizeof(q), "\"%s\"", clen);
		printf("Content-Length: %-26s -> ", q);
	}
	if (got == 0) {
		printf("(no answer)");
	} else {
		if ((eol = strstr(res, "\r\n")) != NULL) {
			*eol = '\0';
		}
		printf("%s", res);
		if (eol != NULL && strncmp(res, "HTTP/1.1 200", 12) == 0 &&
		    (body = strstr(eol + 2, "\r\n\r\n")) != NULL) {
			printf(" | %s", body + 4);
		}
	}
	if (!valid && strncmp(res, "HTTP/1.1 400", 12) != 0) {
		printf("    DEFECT");
	}
	printf("\n");
	return (strncmp(res, "HTTP/1.1 400", 12) == 0);
}

int
main(void)
{
	nng_http_server  *srv;
	nng_http_handler *h;
	nng_url          *url;
	int               port;
	int               bad = 0;
	static const char *invalid[] = { "12abc", "abc", "-1",
		"-18446744073709551612", "+4", "0x10",
		"99999999999999999999999", "4, 4", "4 4", NULL };

	setvbuf(stdout, NULL, _IONBF, 0);
	CHECK(nng_init(NULL));
	CHECK(nng_url_parse(&url, "http://127.0.0.1:0"));
	CHECK(nng_http_server_hold(&srv, url));
	CHECK(nng_http_handler_alloc(&h, "/echo", echo));
	nng_http_handler_set_method(h, "POST");
	nng_http_handler_collect_body(h, true, 1024);
	CHECK(nng_http_server_add_handler(srv, h));
	CHECK(nng_http_server_start(srv));
	CHECK(nng_http_server_get_port(srv, &port));

	if (probe(port, "16", 1) || probe(port, "0", 1)) {
		printf("FAIL: valid Content-Length rejected\n");
		return (1);
	}
	for (int i = 0; invalid[i] != NULL; i++) {
		if (!probe(port, invalid[i], 0)) {
			bad++;
		}
	}
	nng_http_server_stop(srv);
	nng_http_server_release(srv);
	nng_url_free(url);
	if (bad) {
		printf("FAIL: %d invalid Content-Length values were not "
		       "answered with 400\n",
		    bad);
		return (1);
	}
	printf("PASS: every invalid Content-Length was answered with 400\n");
	return (0);
}
