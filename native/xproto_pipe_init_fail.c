/* xproto: a raw REP / RESPONDENT / SURVEYOR pipe whose protocol part cannot be
 * initialised (the per-pipe send queue cannot be allocated) must still be
 * accepted by pipe_close, pipe_stop and pipe_fini, which the core runs on it.
 *
 * src/core/pipe.c, pipe_create():
 *     rv3 = pops->pipe_init(proto_data, p, sock_data);
 *     if (rv1 != 0 || rv2 != 0 || rv3 != 0) {
 *             nni_pipe_close(p);      -> reap thread: pops->pipe_close, pipe_stop
 *             nni_pipe_rele(p);       -> pipe_destroy: pops->pipe_fini
 *
 * This driver compiles the REAL src/sp/protocol/reqrep0/xrep.c,
 * src/sp/protocol/survey0/xrespond.c, src/sp/protocol/survey0/xsurvey.c and the
 * REAL src/core/msgqueue.c, src/core/list.c and replays exactly that sequence on a
 * zeroed pipe (pipe_create: nni_zalloc) with an allocator that refuses the k-th
 * allocation of nni_msgq_init (k = 1: the queue structure, k = 2: its ring).
 * Everything else (aio, mutex, id map, pollable) is a recording stub; the mutex
 * stub touches the mutex memory, as pthread_mutex_lock does.
 *
 * Build (from anywhere):
 *   gcc -g -O0 -fsanitize=address,undefined -fno-omit-frame-pointer \
 *       $(cat /verif/vp/flags.txt) -I/repo/src -I/repo/include -w \
 *       -o /tmp/xproto_pipe_init_fail /verif/native/xproto_pipe_init_fail.c
 * Run: /tmp/xproto_pipe_init_fail            (all cases, each in a child process)
 *
 * Tree before commit da56444 (git -C /repo worktree add --detach /tmp/w da56444~1, then build with
 * -I/tmp/w/src -I/tmp/w/include instead of the /repo paths):
 *   every case fails: "runtime error: member access within null pointer of type 'struct nni_msgq'"
 *   (msgqueue.c:302, nni_msgq_close called from x*_pipe_close with the NULL queue) followed by
 *   "AddressSanitizer: SEGV ... in nni_mtx_lock"; for xrespond/xsurvey the socket back pointer is
 *   NULL as well.  With the close step skipped (argument "noclose") the output shows
 *   "aio N: init 1 close 0 stop 1 fini 2": x*_pipe_init finalised the pipe itself and pipe_destroy
 *   does it again (nni_aio_fini -> nni_task_fini destroys its mutex and condition variable a second
 *   time).  Last line "FAIL: 6 of 6 cases", exit status 1.
 * With da56444: "aio N: init 1 close 1 stop 1 fini 1" for every aio, nothing leaked,
 *   "PASS: a pipe whose init failed is closed, stopped and finalised cleanly", exit status 0.
 */
#include <signal.h>
#include <stdio.h>
#include <stdlib.h>
#include <string.h>
#include <sys/wait.h>
#include <unistd.h>

#include "core/nng_impl.h"

/* ---- fault-injecting allocator ---- */
static int  fa_k = 0;      /* refuse the fa_k-th allocation from now on (0 = never) */
static long fa_live = 0;
void *nni_alloc(size_t sz) { if (fa_k > 0 && --fa_k == 0) return NULL; fa_live++; return malloc(sz); }
void *nni_zalloc(size_t sz) { if (fa_k > 0 && --fa_k == 0) return NULL; fa_live++; return calloc(1, sz); }
void  nni_free(void *p, size_t sz) { (void) sz; if (p != NULL) { fa_live--; free(p); } }

/* ---- recording stubs ---- */
#define NAIO 8
static nni_aio *aio_id[NAIO];
static int      aio_init_n[NAIO], aio_fini_n[NAIO], aio_stop_n[NAIO], aio_close_n[NAIO], naio;
static int slot(nni_aio *a) { for (int i = 0; i < naio; i++) if (aio_id[i] == a) return i; aio_id[naio] = a; return naio++; }
void nni_aio_init(nni_aio *a, nni_cb cb, void *arg) { (void) cb; (void) arg; aio_init_n[slot(a)]++; }
void nni_aio_fini(nni_aio *a) { aio_fini_n[slot(a)]++; }
void nni_aio_stop(nni_aio *a) { aio_stop_n[slot(a)]++; }
void nni_aio_close(nni_aio *a) { aio_close_n[slot(a)]++; }
void nni_aio_list_init(nni_list *l) { NNI_LIST_INIT(l, nni_aio, a_prov_node); }
void nni_aio_list_remove(nni_aio *a) { (void) a; }
void nni_aio_finish_error(nni_aio *a, nng_err rv) { (void) a; (void) rv; }
void nni_mtx_init(nni_mtx *m) { memset(m, 0, sizeof(*m)); }
void nni_mtx_fini(nni_mtx *m) { *(volatile char *) m; }
void nni_mtx_lock(nni_mtx *m) { *(volatile char *) m = 1; }   /* pthread_mutex_lock writes the mutex */
void nni_mtx_unlock(nni_mtx *m) { *(volatile char *) m = 0; }
void nni_pollable_init(nni_pollable *p) { (void) p; }
void nni_pollable_fini(nni_pollable *p) { (void) p; }
void nni_msg_free(nni_msg *m) { (void) m; }
uint32_t nni_pipe_id(nni_pipe *p) { (void) p; return (7); }
int nni_id_remove(nni_id_map *m, uint64_t id) { *(volatile char *) m; (void) id; return (NNG_ENOENT); }

#include "core/list.c"
#include "core/msgqueue.c"
#include "sp/protocol/reqrep0/xrep.c"
#include "sp/protocol/survey0/xrespond.c"
#include "sp/protocol/survey0/xsurvey.c"

/* functions the four files reference but this scenario never reaches (defined under their link names) */
#define UNREACHED(f) void unreached_##f(void) __asm__(#f); void unreached_##f(void) { printf("unexpected call of " #f "\n"); abort(); }
UNREACHED(nng_log_warn)
UNREACHED(nni_aio_finish)
UNREACHED(nni_aio_finish_msg)
UNREACHED(nni_aio_get_msg)
UNREACHED(nni_aio_list_active)
UNREACHED(nni_aio_list_append)
UNREACHED(nni_aio_reset)
UNREACHED(nni_aio_result)
UNREACHED(nni_aio_set_msg)
UNREACHED(nni_aio_start)
UNREACHED(nni_atomic_get)
UNREACHED(nni_atomic_init)
UNREACHED(nni_atomic_set)
UNREACHED(nni_copyin_int)
UNREACHED(nni_copyout_int)
UNREACHED(nni_id_get)
UNREACHED(nni_id_map_fini)
UNREACHED(nni_id_map_init)
UNREACHED(nni_id_set)
UNREACHED(nni_msg_body)
UNREACHED(nni_msg_clone)
UNREACHED(nni_msg_header_append)
UNREACHED(nni_msg_header_append_u32)
UNREACHED(nni_msg_header_len)
UNREACHED(nni_msg_header_trim_u32)
UNREACHED(nni_msg_len)
UNREACHED(nni_msg_set_pipe)
UNREACHED(nni_msg_trim)
UNREACHED(nni_panic)
UNREACHED(nni_pipe_close)
UNREACHED(nni_pipe_peer)
UNREACHED(nni_pipe_recv)
UNREACHED(nni_pipe_send)
UNREACHED(nni_pollable_clear)
UNREACHED(nni_pollable_raise)
UNREACHED(nni_proto_open)
UNREACHED(nni_sock_recvq)
UNREACHED(nni_sock_sendq)

static int noclose;

static int
run(const char *name, nni_proto_pipe_ops *ops, void *sock_data, int k)
{
	void *pd = calloc(1, ops->pipe_size); /* pipe_create: nni_zalloc */
	int   rv, bad = 0;

	fa_k = k;
	rv   = ops->pipe_init(pd, (nni_pipe *) 0x1000, sock_data);
	fa_k = 0;
	printf("  %s: pipe_init with allocation %d of nni_msgq_init refused -> %d\n", name, k, rv);
	if (rv == 0) {
		printf("  allocation was not reached\n");
		return (1);
	}
	/* what pipe_create does next */
	if (!noclose) {
		ops->pipe_close(pd); /* pipe_reap */
	}
	ops->pipe_stop(pd);      /* pipe_reap */
	ops->pipe_fini(pd);      /* pipe_destroy */
	for (int i = 0; i < naio; i++) {
		printf("    aio %d: init %d close %d stop %d fini %d\n", i, aio_init_n[i], aio_close_n[i], aio_stop_n[i], aio_fini_n[i]);
		if (aio_init_n[i] != 1 || aio_fini_n[i] != 1 || aio_stop_n[i] != 1 || (!noclose && aio_close_n[i] != 1)) {
			bad = 1;
		}
	}
	if (fa_live != 0) {
		printf("    %ld blocks leaked\n", fa_live);
		bad = 1;
	}
	if (bad) {
		printf("  FAIL: an aio of the pipe was not initialised/closed/stopped/finalised exactly once\n");
	}
	free(pd);
	return (bad);
}

int
main(int argc, char **argv)
{
	static xrep0_sock  s1;
	static xresp0_sock s2;
	static xsurv0_sock s3;
	struct { const char *n; nni_proto_pipe_ops *o; void *s; } c[3] = {
		{ "xrep0", &xrep0_pipe_ops, &s1 }, { "xresp0", &xresp0_pipe_ops, &s2 }, { "xsurv0", &xsurv0_pipe_ops, &s3 } };
	int bad = 0;

	setvbuf(stdout, NULL, _IONBF, 0);
	noclose = (argc > 1 && strcmp(argv[1], "noclose") == 0);
	NNI_LIST_INIT(&s3.pipes, xsurv0_pipe, node);
	for (int i = 0; i < 3; i++) {
		for (int k = 1; k <= 2; k++) {
			int   st;
			pid_t pid = fork();
			if (pid == 0) {
				_exit(run(c[i].n, c[i].o, c[i].s, k));
			}
			waitpid(pid, &st, 0);
			if (WIFSIGNALED(st)) {
				printf("  %s k=%d: CRASH signal %d\n", c[i].n, k, WTERMSIG(st));
				bad++;
			} else if (WEXITSTATUS(st) != 0) {
				printf("  %s k=%d: FAIL (exit %d)\n", c[i].n, k, WEXITSTATUS(st));
				bad++;
			}
		}
	}
	if (bad) {
		printf("FAIL: %d of 6 cases\n", bad);
		return (1);
	}
	printf("PASS: a pipe whose init failed is closed, stopped and finalised cleanly\n");
	return (0);
}
