/* REQ (C04 "... discarded without disturbing other contexts", C15): a send that the aio layer refuses
 * (non-blocking send with no connection: NNG_EAGAIN; also a stopped or aborted aio) leaves a STALE request id in
 * the context: req0_ctx_send allocates the id, stores it in ctx->request_id, and on refusal removes it from the id
 * map but does not clear ctx->request_id.  The next request (or close) of that context runs req0_ctx_reset, which
 * removes "its" id from the map once more - an id that is no longer its own.  Request ids are handed out by a
 * wrapping 31-bit counter; once the counter has come round, the id belongs to ANOTHER context, whose map entry is
 * destroyed: the reply to that context's outstanding request is discarded as unknown, every resend carries the same
 * unmapped id, and its receive never completes although the replier answers every time.
 *
 * Real code: this file #includes the real src/sp/protocol/reqrep0/req.c (so that the socket's private data can be
 * inspected) and links the static library with the internal API.  The 2^31 - 1 requests that bring the id counter
 * back round are NOT performed: the counter (s->requests.id_dyn_val) is set back by one instead, which is exactly
 * the state they produce (nni_id_alloc hands out id_dyn_val, skipping ids in use, and wraps at the top of the range).
 *
 * (module reqy, units req0_ctx_send_*_rp0: obligations REQ_ID_INV / "refused => context idle")
 * build: cmake --build /repo/_build --target nng_testing &&
 *        cc $(sed 's/-DNNG_SHARED_LIB//; s/-DNDEBUG//; s/-std=gnu99//' /verif/vp/flags.txt) -DNNG_STATIC_LIB -I/repo/include -I/repo/src \
 *           reqy_refused_send_stale_id.c /repo/_build/libnng_testing.a -lpthread -latomic -o /tmp/reqy_stale_id
 * exit status 1 = defect present (context B never receives the reply to its request) */
#include <stdio.h>
#include <string.h>

#include "core/nng_impl.h"
#include "sp/protocol/reqrep0/req.c"

static void
replier(void *arg)
{
	nng_socket rep = *(nng_socket *) arg;
	nng_msg   *m;
	while (nng_recvmsg(rep, &m, 0) == 0) {
		if (nng_sendmsg(rep, m, 0) != 0) {
			nng_msg_free(m);
		}
	}
}

int
main(void)
{
	nng_socket  req, rep;
	nng_ctx     a, b;
	nng_msg    *m;
	nng_aio    *saio, *raio;
	nni_sock   *ns;
	req0_sock  *s;
	req0_ctx   *ca, *cb;
	nni_ctx    *nc;
	nng_thread *thr;
	uint32_t    stale;
	int         rv, bad;

	nng_init(NULL);
	nng_req0_open(&req);
	nng_rep0_open(&rep);
	nng_socket_set_ms(req, NNG_OPT_REQ_RESENDTIME, 200); /* B's request is retransmitted 5 times a second */
	nng_socket_set_ms(req, NNG_OPT_REQ_RESENDTICK, 50);
	nng_ctx_open(&a, req);
	nng_ctx_open(&b, req);
	nni_sock_find(&ns, req.id);
	s = nni_sock_proto_data(ns);
	nni_ctx_find(&nc, a.id);
	ca = nni_ctx_proto_data(nc);
	nni_ctx_rele(nc);
	nni_ctx_find(&nc, b.id);
	cb = nni_ctx_proto_data(nc);
	nni_ctx_rele(nc);

	/* 1. context A: non-blocking send while nothing is connected => NNG_EAGAIN, the message stays ours */
	nng_msg_alloc(&m, 0);
	nng_msg_append(m, "A1", 3);
	rv = nng_ctx_sendmsg(a, m, NNG_FLAG_NONBLOCK);
	printf("A: non-blocking send without a connection: rv=%d (%s)\n", rv, nng_strerror(rv));
	if (rv != 0) {
		nng_msg_free(m);
	}
	stale = ca->request_id;
	printf("A: ctx->request_id after the refused send = %#x, id map has it: %s\n", (unsigned) stale,
	    nni_id_get(&s->requests, stale) != NULL ? "yes" : "no");

	/* 2. (2^31 - 1 requests later) the id counter has come round */
	nni_mtx_lock(&s->mtx);
	s->requests.id_dyn_val = stale;
	nni_mtx_unlock(&s->mtx);

	/* 3. context B submits a request (waits for a connection); it is given the id A still remembers */
	nng_aio_alloc(&saio, NULL, NULL);
	nng_aio_alloc(&raio, NULL, NULL);
	nng_aio_set_timeout(raio, 3000);
	nng_msg_alloc(&m, 0);
	nng_msg_append(m, "B1", 3);
	nng_aio_set_msg(saio, m);
	nng_ctx_send(b, saio);
	printf("B: request queued with id %#x, id map -> %s\n", (unsigned) cb->request_id,
	    nni_id_get(&s->requests, cb->request_id) == cb ? "B" : "not B");

	/* 4. context A tries again (still nothing connected) */
	nng_msg_alloc(&m, 0);
	nng_msg_append(m, "A2", 3);
	rv = nng_ctx_sendmsg(a, m, NNG_FLAG_NONBLOCK);
	if (rv != 0) {
		nng_msg_free(m);
	}
	printf("A: second refused send: rv=%d; id map entry of B's request %#x -> %s\n", rv, (unsigned) cb->request_id,
	    nni_id_get(&s->requests, cb->request_id) == cb ? "B" : "GONE");

	/* 5. a replier appears and answers everything it gets */
	nng_listen(rep, "inproc://reqy_stale_id", NULL, 0);
	nng_thread_create(&thr, replier, &rep);
	nng_dial(req, "inproc://reqy_stale_id", NULL, 0);
	nng_aio_wait(saio);
	printf("B: send completed: %d\n", nng_aio_result(saio));
	nng_ctx_recv(b, raio);
	nng_aio_wait(raio);
	rv = nng_aio_result(raio);
	printf("B: receive of the reply (3 s, replier answers every transmission): rv=%d (%s)\n", rv, nng_strerror(rv));
	bad = (rv != 0);
	if (rv == 0) {
		nng_msg_free(nng_aio_get_msg(raio));
	}
	nni_sock_rele(ns);
	nng_socket_close(req);
	nng_socket_close(rep);
	nng_thread_destroy(thr);
	nng_aio_free(saio);
	nng_aio_free(raio);
	printf(bad ? "DEFECT: the reply to B's request was discarded (A destroyed B's id map entry)\n" : "ok\n");
	return (bad);
}
