/* httphdr: http_parse_header (src/supplemental/http/http_msg.c) accepts a
 * field line whose name is empty (": value") and stores a header with the
 * name "".  RFC 9112 5: field-line = field-name ":" ..., field-name = token =
 * 1*tchar.  Failing obligation: httphdr/parse_header
 * http_parse_header.postcondition.3 (empty name => refused, nothing stored).
 *
 * Build: cc -g -fsanitize=address -I/repo/include -I/repo/src -o /tmp/hh/empty_name \
 *   /verif/native/httphdr_empty_field_name.c /repo/_build/libnng_testing.a -lpthread
 * Run: /tmp/hh/empty_name       exit status 1 = defect present, 0 = absent
 */
#include <nng/nng.h>
#include <nng/http.h>
#include <stdbool.h>
#include <stdio.h>
#include <string.h>
extern int nni_http_init(nng_http **, nng_stream *, bool);
extern int nni_http_res_parse(nng_http *, void *, size_t, size_t *);
extern const char *nni_http_get_header(nng_http *, const char *);
extern void nni_http_conn_fini(nng_http *);

int
main(void)
{
	const char *msg = "HTTP/1.1 200 OK\r\n: sneaky\r\n\r\n";
	nng_http   *c;
	char        buf[64];
	size_t      len = 0;
	int         rv;
	nng_init(NULL);
	if (nni_http_init(&c, NULL, true) != 0) {
		return (2);
	}
	strcpy(buf, msg);
	/* same way http_rd_buf calls the parser */
	rv = nni_http_res_parse(c, buf, strlen(msg), &len);
	const char *v = nni_http_get_header(c, "");
	printf("response with the field line \": sneaky\" -> rv=%d, header \"\" = %s\n", rv, v ? v : "(none)");
	int defect = (rv == 0);
	nni_http_conn_fini(c);
	printf(defect ? "DEFECT: field line with empty name accepted\n" : "refused\n");
	return (defect);
}
