// Reproduction: a RESPONDENT that has a survey pending must be able to answer
// with NNG_FLAG_NONBLOCK (C15: a non-blocking send that can proceed must succeed).
#include <nng/nng.h>
#include <stdio.h>
#include <string.h>
int main(void)
{
	nng_socket surv, resp;
	nng_msg *m;
	int rv;
	nng_init(NULL);
	nng_surveyor0_open(&surv);
	nng_respondent0_open(&resp);
	nng_socket_set_ms(surv, NNG_OPT_RECVTIMEO, 2000);
	nng_socket_set_ms(resp, NNG_OPT_RECVTIMEO, 2000);
	nng_listen(surv, "inproc://resp_nb", NULL, 0);
	nng_dial(resp, "inproc://resp_nb", NULL, 0);
	nng_msleep(100);
	nng_msg_alloc(&m, 0); nng_msg_append(m, "ping", 5);
	rv = nng_sendmsg(surv, m, 0); printf("survey send: %d\n", rv);
	rv = nng_recvmsg(resp, &m, 0); printf("respondent recv: %d (%s)\n", rv, rv ? "" : (char *) nng_msg_body(m));
	if (rv) return 2;
	nng_msg_clear(m); nng_msg_append(m, "pong", 5);
	rv = nng_sendmsg(resp, m, NNG_FLAG_NONBLOCK);
	printf("respondent NONBLOCK send with survey pending, pipe idle: %d (%s)\n", rv, nng_strerror(rv));
	if (rv != 0) { printf("DEFECT: non-blocking send failed although it could proceed\n"); return 1; }
	rv = nng_recvmsg(surv, &m, 0); printf("surveyor recv: %d\n", rv);
	return rv;
}
