// REP: the socket (its own context) holds a request of pipe P and P is idle: the send poll
// descriptor is readable ("can send").  Then another context replies over the same pipe P and
// makes it busy.  rep0_ctx_send does not clear the socket's "writable" pollable in that case:
// the descriptor keeps polling ready while nng_sendmsg(NNG_FLAG_NONBLOCK) has to queue behind
// the busy pipe and returns NNG_EAGAIN (C15: busy loop).
// build: cc -I/repo/include repx_writable_while_pipe_busy.c -L/repo/_build -lnng -Wl,-rpath,/repo/_build -o /tmp/repx_wr
#include <nng/nng.h>
#include <arpa/inet.h>
#include <netinet/in.h>
#include <poll.h>
#include <stdio.h>
#include <stdlib.h>
#include <string.h>
#include <sys/socket.h>
#include <unistd.h>

static void wr(int fd, const void *b, size_t n) { if (write(fd, b, n) != (ssize_t) n) { perror("write"); exit(2); } }
static void send_req(int fd, uint32_t id)
{
	unsigned char f[8 + 4 + 4] = { 0 };
	f[7] = 8; // length 8 (big endian 64 bit)
	f[8] = 0x80 | (id >> 24); f[9] = id >> 16; f[10] = id >> 8; f[11] = id; // request id, high bit
	memcpy(f + 12, "ping", 4);
	wr(fd, f, sizeof f);
}
static int ready(int fd)
{
	struct pollfd p = { .fd = fd, .events = POLLIN };
	return (poll(&p, 1, 0) == 1 && (p.revents & POLLIN) != 0);
}
int main(void)
{
	nng_socket rep; nng_ctx ctx; nng_aio *a; nng_msg *m; int rv, sfd, w0, w1, w2;
	nng_init(NULL);
	nng_rep0_open(&rep);
	if ((rv = nng_listen(rep, "tcp://127.0.0.1:45673", NULL, 0)) != 0) { printf("listen %s\n", nng_strerror(rv)); return 2; }
	nng_ctx_open(&ctx, rep);
	nng_aio_alloc(&a, NULL, NULL);
	nng_socket_get_send_poll_fd(rep, &sfd);

	// raw peer: plain TCP speaking SP as REQ (0x30); it never reads replies
	int fd = socket(AF_INET, SOCK_STREAM, 0);
	struct sockaddr_in sa = { 0 }; sa.sin_family = AF_INET; sa.sin_port = htons(45673); sa.sin_addr.s_addr = htonl(INADDR_LOOPBACK);
	int small = 4096; setsockopt(fd, SOL_SOCKET, SO_RCVBUF, &small, sizeof small);
	if (connect(fd, (struct sockaddr *) &sa, sizeof sa) != 0) { perror("connect"); return 2; }
	unsigned char hs[8] = { 0, 'S', 'P', 0, 0, 0x30, 0, 0 }, in[8];
	wr(fd, hs, 8); if (read(fd, in, 8) != 8) { perror("hs"); return 2; }
	send_req(fd, 1); send_req(fd, 2);
	nng_msleep(100);
	w0 = ready(sfd);
	// 1. the socket itself receives request 1: it may reply now, pipe idle
	if ((rv = nng_recvmsg(rep, &m, 0)) != 0) { printf("recv1 %s\n", nng_strerror(rv)); return 2; }
	nng_msg_free(m);
	w1 = ready(sfd);
	// 2. a context receives request 2 (same pipe) and replies with a message too big for the
	//    socket buffers: the send completes, the pipe stays busy
	nng_ctx_recv(ctx, a); nng_aio_wait(a); if ((rv = nng_aio_result(a)) != 0) { printf("recv2 %s\n", nng_strerror(rv)); return 2; }
	nng_msg_free(nng_aio_get_msg(a));
	nng_msg_alloc(&m, 64u << 20); nng_aio_set_msg(a, m); nng_ctx_send(ctx, a); nng_aio_wait(a);
	if ((rv = nng_aio_result(a)) != 0) { printf("send2 %s\n", nng_strerror(rv)); return 2; }
	nng_msleep(100);
	w2 = ready(sfd);
	// 3. the socket's reply now has to wait for the pipe
	nng_msg_alloc(&m, 4);
	rv = nng_sendmsg(rep, m, NNG_FLAG_NONBLOCK);
	printf("send descriptor ready: before any request %d, socket holds a request %d, after another context made the pipe busy %d\n", w0, w1, w2);
	printf("non-blocking socket send while the pipe is busy: %d (%s)\n", rv, nng_strerror(rv));
	if (w2 && rv == NNG_EAGAIN) {
		printf("DEFECT: send fd polls ready but nng_sendmsg(NNG_FLAG_NONBLOCK) returns NNG_EAGAIN\n");
		return (1);
	}
	printf("ok\n");
	return (0);
}
