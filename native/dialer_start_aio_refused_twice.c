/* Native demonstration (public API): nng_dialer_start_aio with an aio that cannot start (nng_aio_stop was
 * called on it).  nni_dialer_start_aio ignored the return value of nni_aio_start: the aio layer had already
 * completed the operation (NNG_ESTOPPED, callback run), yet the dialer kept the aio as d_user_aio and
 * completed it AGAIN when the connection came up: two callbacks, two results for one operation
 * (C02 "completes exactly once", "no callback ... will ever run" after nng_aio_stop).
 * Found as an observation by an independent seed agent.
 * build: gcc -w dialer_start_aio_refused_twice.c -I/repo/include -L/repo/_build -lnng -lpthread -o d
 * before the fix: "FAIL: callbacks=2 results=999,0" exit 1; after: "ok: callbacks=1 results=999" exit 0 */
#include <stdio.h>
#include <nng/nng.h>
static int calls; static int res[4]; static nng_aio *aio;
static void cb(void *a) { if (calls < 4) res[calls] = (int) nng_aio_result(aio); calls++; }
int main(void)
{
	nng_socket s1, s2; nng_dialer d;
	nng_init(NULL);
	nng_pair1_open(&s1); nng_pair1_open(&s2);
	nng_listen(s1, "inproc://dsa", NULL, 0);
	nng_dialer_create(&d, s2, "inproc://dsa");
	nng_aio_alloc(&aio, cb, NULL);
	nng_aio_stop(aio);
	nng_dialer_start_aio(d, NNG_FLAG_NONBLOCK, aio);
	nng_msleep(500);
	if (calls != 1) { printf("FAIL: callbacks=%d results=%d,%d\n", calls, res[0], res[1]); return 1; }
	printf("ok: callbacks=%d results=%d\n", calls, res[0]);
	return 0;
}
