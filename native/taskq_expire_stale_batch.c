/* C02 "A timeout never fires before the configured duration":
 * nni_aio_expire_loop (src/core/aio.c) collects a BATCH of expired aios under the expire lock, then
 * drops that lock around each provider cancel call.  While it is inside the cancel call for the
 * first aio of the batch, a later aio of the same batch can complete normally and be started again
 * (new operation, new timeout).  When the loop gets to that stale batch entry it takes the cancel
 * function of the NEW operation and calls it with NNG_ETIMEDOUT, long before the new deadline.
 *
 * Real code, real threads (libnng_testing.a = the static build with the internal nni_* API that
 * every provider uses).  The race window is held open deterministically by a provider cancel
 * function that takes 300 ms (e.g. waiting for a contended provider lock).
 *
 * build: cmake --build /repo/_build --target nng_testing &&
 *        cc -DNNG_STATIC_LIB -DNNG_PRIVATE -I/repo/include -I/repo/src taskq_expire_stale_batch.c \
 *           /repo/_build/libnng_testing.a -lpthread -o taskq_expire_stale_batch
 * exit status 1 = defect present (second operation of B timed out after < 5 s although its timeout is 10 s) */
#include <stdio.h>
#include <string.h>

#include "core/nng_impl.h"

static nni_aio      A, B;
static volatile int in_cancel_a;
static volatile int b_phase; /* 1: first operation, 2: second operation */
static nni_time     b2_start, b2_end;
static volatile int b2_rv = -1, b2_done;
static volatile int b1_cancelled = -1;

static void
cancel_a(nni_aio *aio, void *arg, nng_err rv)
{
	(void) arg;
	in_cancel_a = 1;
	nng_msleep(300); /* a slow provider cancel function */
	nni_aio_finish_error(aio, rv);
}

static void
cancel_b(nni_aio *aio, void *arg, nng_err rv)
{
	(void) arg;
	if (b_phase == 1) {
		b1_cancelled = (int) rv;
	}
	/* the usual provider: the operation is still mine, complete it with the code given */
	nni_aio_finish_error(aio, rv);
}

static void
cb_a(void *arg)
{
	(void) arg;
}

static void
cb_b(void *arg)
{
	(void) arg;
	if (b_phase == 2) {
		b2_end  = nni_clock();
		b2_rv   = (int) nni_aio_result(&B);
		b2_done = 1;
	}
}

int
main(void)
{
	nng_init_params p;
	memset(&p, 0, sizeof(p));
	p.num_expire_threads = 1; /* A and B share the expire queue */
	p.max_expire_threads = 1;
	if (nng_init(&p) != 0) {
		printf("nng_init failed\n");
		return (2);
	}
	nni_aio_init(&A, cb_a, NULL);
	nni_aio_init(&B, cb_b, NULL);

	/* two operations with the same 50 ms timeout: both expire in the same scan, A before B */
	b_phase = 1;
	nni_aio_set_timeout(&A, 50);
	nni_aio_set_timeout(&B, 50);
	if (!nni_aio_start(&A, cancel_a, NULL) || !nni_aio_start(&B, cancel_b, NULL)) {
		printf("start refused\n");
		return (2);
	}

	/* wait until the expire thread is inside A's cancel function (expire lock dropped, B already
	 * picked into the batch) */
	while (!in_cancel_a) {
		nng_msleep(1);
	}
	/* B's provider completes B's first operation normally, right now */
	nni_aio_finish(&B, NNG_OK, 0);
	nni_aio_wait(&B);
	printf("B first operation: result %d (cancel function called: %s)\n", (int) nni_aio_result(&B),
	    b1_cancelled < 0 ? "no" : "yes");

	/* ... and the consumer starts the next operation on B with a 10 s timeout */
	b_phase = 2;
	nni_aio_set_timeout(&B, 10000);
	b2_start = nni_clock();
	if (!nni_aio_start(&B, cancel_b, NULL)) {
		printf("second start refused\n");
		return (2);
	}
	/* nothing completes it; give the expire thread 2 s */
	for (int i = 0; i < 2000 && !b2_done; i++) {
		nng_msleep(1);
	}
	int defect = 0;
	if (b2_done) {
		printf("B second operation (timeout 10000 ms) finished after %llu ms with %d (%s)\n",
		    (unsigned long long) (b2_end - b2_start), b2_rv, nng_strerror(b2_rv));
		if (b2_rv == NNG_ETIMEDOUT && (b2_end - b2_start) < 5000) {
			defect = 1;
		}
	} else {
		printf("B second operation still pending after 2 s (as it should be)\n");
		nni_aio_abort(&B, NNG_ECANCELED);
	}
	nni_aio_stop(&A);
	nni_aio_stop(&B);
	nni_aio_fini(&A);
	nni_aio_fini(&B);
	nng_fini();
	printf(defect ? "DEFECT: timeout fired before the configured duration\n" : "ok\n");
	return (defect);
}
