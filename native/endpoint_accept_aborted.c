/* endpoint module (C14), defect E1: a listener stops accepting for ever after
 * ONE accept completes with NNG_ECONNABORTED.
 *
 * src/core/listener.c listener_accept_cb(): the case NNG_ECONNABORTED only
 * counts the error and returns -- accept is neither re-armed at once (as for
 * NNG_ECONNRESET / NNG_ETIMEDOUT / NNG_EPEERAUTH) nor after the cool-down
 * timer (as for every unknown error).  NNG_ECONNABORTED is what the POSIX
 * layer reports for errno ECONNABORTED (src/platform/posix/posix_debug.c), i.e.
 * what a stream transport hands up when ONE incoming connection is aborted by
 * its peer during negotiation.  C14: "a listener keeps accepting further
 * connections whatever happens to individual pipes".
 * Failing CBMC obligations (unit endpoint/listener_accept_cb, unfixed tree):
 *   listener_accept_cb.postcondition.14  EP_ACC_TRANSIENT(rv) ==> accept re-armed
 *   listener_accept_cb.postcondition.18  !closed ==> (re-armed xor cool-down timer started)
 *
 * The demo runs the REAL library (static test build of /repo, all of core)
 * with a tiny transport (registered under the URL scheme "dtls", which the URL
 * parser knows and this build does not provide) whose first accept fails with
 * NNG_ECONNABORTED (the first incoming connection is aborted); every later
 * accept simply waits.  It then checks whether the listener asked the
 * transport for another connection.
 *
 * Build:
 *   cc -g $(cat /verif/vp/flags.txt) -I/repo/src -I/repo/include \
 *      -o /tmp/endpoint_accept_aborted /verif/native/endpoint_accept_aborted.c \
 *      /repo/_build/libnng_testing.a -lpthread -lnsl -latomic
 * Run: /tmp/endpoint_accept_aborted
 * exit status 1 = defect present (accept never re-armed), 0 = listener keeps accepting
 */
#include "core/nng_impl.h"
#include "sp/transport.h"
#include <nng/nng.h>
#include <stdio.h>

typedef struct {
	nni_mtx  mtx;
	nni_aio *pending;
	bool     closed;
} vpt_ep;

static nni_atomic_int accept_calls;

static nng_err
vpt_l_init(void *arg, nng_url *url, nni_listener *l)
{
	vpt_ep *ep = arg;
	NNI_ARG_UNUSED(url);
	NNI_ARG_UNUSED(l);
	nni_mtx_init(&ep->mtx);
	ep->pending = NULL;
	ep->closed  = false;
	return (NNG_OK);
}
static void
vpt_l_fini(void *arg)
{
	vpt_ep *ep = arg;
	nni_mtx_fini(&ep->mtx);
}
static nng_err
vpt_l_bind(void *arg, nng_url *url)
{
	NNI_ARG_UNUSED(arg);
	NNI_ARG_UNUSED(url);
	return (NNG_OK);
}
static void
vpt_cancel(nni_aio *aio, void *arg, nng_err rv)
{
	vpt_ep *ep = arg;
	nni_mtx_lock(&ep->mtx);
	if (ep->pending == aio) {
		ep->pending = NULL;
		nni_aio_finish_error(aio, rv);
	}
	nni_mtx_unlock(&ep->mtx);
}
static void
vpt_l_accept(void *arg, nni_aio *aio)
{
	vpt_ep *ep = arg;
	int     n;

	nni_aio_reset(aio);
	nni_mtx_lock(&ep->mtx);
	if (ep->closed) {
		nni_mtx_unlock(&ep->mtx);
		nni_aio_finish_error(aio, NNG_ECLOSED);
		return;
	}
	if (!nni_aio_start(aio, vpt_cancel, ep)) {
		nni_mtx_unlock(&ep->mtx);
		return;
	}
	nni_atomic_inc(&accept_calls);
	n = nni_atomic_get(&accept_calls);
	if (n == 1) {
		// the first incoming connection is aborted by its peer
		nni_mtx_unlock(&ep->mtx);
		nni_aio_finish_error(aio, NNG_ECONNABORTED);
		return;
	}
	ep->pending = aio; // wait for a connection that never comes
	nni_mtx_unlock(&ep->mtx);
}
static void
vpt_l_close(void *arg)
{
	vpt_ep  *ep = arg;
	nni_aio *aio;
	nni_mtx_lock(&ep->mtx);
	ep->closed = true;
	if ((aio = ep->pending) != NULL) {
		ep->pending = NULL;
		nni_aio_finish_error(aio, NNG_ECLOSED);
	}
	nni_mtx_unlock(&ep->mtx);
}
static void
vpt_l_stop(void *arg)
{
	NNI_ARG_UNUSED(arg);
}
static nng_err
vpt_getopt(void *arg, const char *n, void *v, size_t *szp, nni_type t)
{
	NNI_ARG_UNUSED(arg); NNI_ARG_UNUSED(n); NNI_ARG_UNUSED(v); NNI_ARG_UNUSED(szp); NNI_ARG_UNUSED(t);
	return (NNG_ENOTSUP);
}
static nng_err
vpt_setopt(void *arg, const char *n, const void *v, size_t sz, nni_type t)
{
	NNI_ARG_UNUSED(arg); NNI_ARG_UNUSED(n); NNI_ARG_UNUSED(v); NNI_ARG_UNUSED(sz); NNI_ARG_UNUSED(t);
	return (NNG_ENOTSUP);
}

// pipe operations: never used, no pipe is ever created
static size_t   vpt_p_size(void) { return (8); }
static int      vpt_p_init(void *a, nni_pipe *p) { NNI_ARG_UNUSED(a); NNI_ARG_UNUSED(p); return (0); }
static void     vpt_p_void(void *a) { NNI_ARG_UNUSED(a); }
static void     vpt_p_io(void *a, nni_aio *aio) { NNI_ARG_UNUSED(a); nni_aio_finish_error(aio, NNG_ECLOSED); }
static uint16_t vpt_p_peer(void *a) { NNI_ARG_UNUSED(a); return (0); }

static nni_sp_pipe_ops vpt_pipe_ops = {
	.p_size  = vpt_p_size,
	.p_init  = vpt_p_init,
	.p_fini  = vpt_p_void,
	.p_stop  = vpt_p_void,
	.p_send  = vpt_p_io,
	.p_recv  = vpt_p_io,
	.p_close = vpt_p_void,
	.p_peer  = vpt_p_peer,
};
static nni_sp_listener_ops vpt_listener_ops = {
	.l_size   = sizeof(vpt_ep),
	.l_init   = vpt_l_init,
	.l_fini   = vpt_l_fini,
	.l_bind   = vpt_l_bind,
	.l_accept = vpt_l_accept,
	.l_close  = vpt_l_close,
	.l_stop   = vpt_l_stop,
	.l_getopt = vpt_getopt,
	.l_setopt = vpt_setopt,
};
static void vpt_tran_init(void) {}
static void vpt_tran_fini(void) {}
static nni_sp_tran vpt_tran = {
	.tran_scheme   = "dtls", // a scheme the URL parser accepts; no real transport of this build uses it
	.tran_listener = &vpt_listener_ops,
	.tran_pipe     = &vpt_pipe_ops,
	.tran_init     = vpt_tran_init,
	.tran_fini     = vpt_tran_fini,
};

int
main(void)
{
	nng_socket   s;
	nng_listener l;
	int          rv, n;

	nni_atomic_init(&accept_calls);
	if ((rv = nng_init(NULL)) != 0) {
		printf("nng_init: %s\n", nng_strerror(rv));
		return (2);
	}
	nni_sp_tran_register(&vpt_tran);
	if ((rv = nng_pair0_open(&s)) != 0) {
		printf("open: %s\n", nng_strerror(rv));
		return (2);
	}
	if ((rv = nng_listen(s, "dtls://127.0.0.1:4999", &l, 0)) != 0) {
		printf("listen: %s\n", nng_strerror(rv));
		return (2);
	}
	// 500 ms is five times the cool-down used for unknown errors
	nng_msleep(500);
	n = nni_atomic_get(&accept_calls);
	printf("accept was handed to the transport %d time(s)\n", n);
	nng_socket_close(s);
	if (n < 2) {
		printf("DEFECT: the listener stopped accepting after one NNG_ECONNABORTED\n");
		return (1);
	}
	printf("OK: the listener keeps accepting\n");
	return (0);
}
