// RESPONDENT (analogue of native/repx_writable_while_pipe_busy.c, /repo commit dde79ba for REP):
// scenario A (resp0_ctx_send): the socket (its own context) holds a survey of pipe P and P is idle:
//   the send poll descriptor is readable ("can send").  Then another context responds over the
//   same pipe P and makes it busy.  resp0_ctx_send does not clear the socket's "writable"
//   pollable: the descriptor keeps polling ready while a send on the socket has to queue behind
//   the busy pipe (C15: descriptor ready, operation cannot proceed).
// scenario B (resp0_ctx_recv): a context's response makes P busy first; then the socket receives
//   the next survey of the same pipe P.  resp0_ctx_recv raises "writable" without looking at
//   p->busy (resp0_pipe_recv_cb does look): same symptom.
// Because of the known finding KF1 (resp0_ctx_send consults nni_aio_start first, so a send with
// NNG_FLAG_NONBLOCK is always refused) "cannot proceed" is shown with a 300 ms send timeout:
// the send stays queued behind the busy pipe and times out, whereas with an idle pipe it
// completes at once (checked first as a control).
// exit status 1 = defect present (either scenario), 0 = ok, 2 = setup problem
// build: cc -I/repo/include surveyx_resp_writable_while_pipe_busy.c -L/repo/_build -lnng -Wl,-rpath,/repo/_build -o /tmp/surveyx_wr
// run:   /tmp/surveyx_wr        (both scenarios)   /tmp/surveyx_wr A | B  (one of them)
#include <nng/nng.h>
#include <arpa/inet.h>
#include <netinet/in.h>
#include <poll.h>
#include <stdio.h>
#include <stdlib.h>
#include <string.h>
#include <sys/socket.h>
#include <unistd.h>

static void wr(int fd, const void *b, size_t n) { if (write(fd, b, n) != (ssize_t) n) { perror("write"); exit(2); } }
static void send_survey(int fd, uint32_t id)
{
	unsigned char f[8 + 4 + 4] = { 0 };
	f[7] = 8; // length 8 (big endian 64 bit)
	f[8] = 0x80 | (id >> 24); f[9] = id >> 16; f[10] = id >> 8; f[11] = id; // survey id, high bit
	memcpy(f + 12, "ping", 4);
	wr(fd, f, sizeof f);
}
static int ready(int fd)
{
	struct pollfd p = { .fd = fd, .events = POLLIN };
	return (poll(&p, 1, 0) == 1 && (p.revents & POLLIN) != 0);
}
// raw peer: plain TCP speaking SP as SURVEYOR (0x62); it never reads responses
static int peer(int port)
{
	int fd = socket(AF_INET, SOCK_STREAM, 0);
	struct sockaddr_in sa = { 0 }; sa.sin_family = AF_INET; sa.sin_port = htons(port); sa.sin_addr.s_addr = htonl(INADDR_LOOPBACK);
	int small = 4096; setsockopt(fd, SOL_SOCKET, SO_RCVBUF, &small, sizeof small);
	if (connect(fd, (struct sockaddr *) &sa, sizeof sa) != 0) { perror("connect"); exit(2); }
	unsigned char hs[8] = { 0, 'S', 'P', 0, 0, 0x62, 0, 0 }, in[8];
	wr(fd, hs, 8); if (read(fd, in, 8) != 8) { perror("hs"); exit(2); }
	return (fd);
}
static void ctx_recv(nng_ctx ctx, nng_aio *a)
{
	int rv;
	nng_ctx_recv(ctx, a); nng_aio_wait(a);
	if ((rv = nng_aio_result(a)) != 0) { printf("ctx recv %s\n", nng_strerror(rv)); exit(2); }
	nng_msg_free(nng_aio_get_msg(a));
}
// a response too big for the socket buffers: the send completes, the pipe stays busy
static void ctx_send_big(nng_ctx ctx, nng_aio *a)
{
	nng_msg *m; int rv;
	nng_msg_alloc(&m, 64u << 20); nng_aio_set_msg(a, m); nng_ctx_send(ctx, a); nng_aio_wait(a);
	if ((rv = nng_aio_result(a)) != 0) { printf("ctx send %s\n", nng_strerror(rv)); exit(2); }
}
static int sock_send(nng_socket s)
{
	nng_msg *m; int rv;
	nng_msg_alloc(&m, 4);
	if ((rv = nng_sendmsg(s, m, 0)) != 0) nng_msg_free(m);
	return (rv);
}

static int scenario(char which, int port)
{
	nng_socket resp; nng_ctx ctx; nng_aio *a; nng_msg *m; int rv, sfd, w0, w1, w2; char url[64];
	nng_respondent0_open(&resp);
	snprintf(url, sizeof url, "tcp://127.0.0.1:%d", port);
	if ((rv = nng_listen(resp, url, NULL, 0)) != 0) { printf("listen %s\n", nng_strerror(rv)); exit(2); }
	nng_socket_set_ms(resp, NNG_OPT_SENDTIMEO, 300);
	nng_socket_set_ms(resp, NNG_OPT_RECVTIMEO, 2000);
	nng_ctx_open(&ctx, resp);
	nng_aio_alloc(&a, NULL, NULL);
	nng_socket_get_send_poll_fd(resp, &sfd);
	int fd = peer(port);
	nng_msleep(100);
	w0 = ready(sfd);
	if (which == 'C') {
		// control: socket holds a survey, pipe idle: descriptor ready and the send completes at once
		send_survey(fd, 1);
		if ((rv = nng_recvmsg(resp, &m, 0)) != 0) { printf("recv %s\n", nng_strerror(rv)); exit(2); }
		nng_msg_free(m);
		w1 = ready(sfd);
		rv = sock_send(resp);
		printf("control : send descriptor ready %d, socket send with idle pipe: %d (%s)\n", w1, rv, nng_strerror(rv));
		nng_socket_close(resp); close(fd); nng_aio_free(a);
		return (w1 && rv == 0) ? 0 : 2;
	}
	if (which == 'A') {
		send_survey(fd, 1); send_survey(fd, 2);
		nng_msleep(100);
		// 1. the socket itself receives survey 1: it may respond now, pipe idle
		if ((rv = nng_recvmsg(resp, &m, 0)) != 0) { printf("recv1 %s\n", nng_strerror(rv)); exit(2); }
		nng_msg_free(m);
		w1 = ready(sfd);
		// 2. a context receives survey 2 (same pipe) and responds: the pipe becomes busy
		ctx_recv(ctx, a);
		ctx_send_big(ctx, a);
	} else {
		send_survey(fd, 1); send_survey(fd, 2);
		nng_msleep(100);
		// 1. a context receives survey 1 and responds: the pipe becomes busy
		ctx_recv(ctx, a);
		ctx_send_big(ctx, a);
		nng_msleep(100); // survey 2 is now held by the pipe (nobody waits): the socket receive below takes it in resp0_ctx_recv
		w1 = ready(sfd);
		// 2. the socket itself receives survey 2 of the same (busy) pipe
		if ((rv = nng_recvmsg(resp, &m, 0)) != 0) { printf("recv2 %s\n", nng_strerror(rv)); exit(2); }
		nng_msg_free(m);
	}
	nng_msleep(100);
	w2 = ready(sfd);
	// 3. the socket's response now has to wait for the pipe
	rv = sock_send(resp);
	printf("scenario %c: send descriptor ready: before any survey %d, midway %d, socket holds a survey of the BUSY pipe %d\n", which, w0, w1, w2);
	printf("scenario %c: socket send (300 ms timeout) while the pipe is busy: %d (%s)\n", which, rv, nng_strerror(rv));
	nng_socket_close(resp); close(fd); nng_aio_free(a);
	if (w2 && rv == NNG_ETIMEDOUT) {
		printf("DEFECT (%c): send fd polls ready but the send cannot proceed (pipe busy)\n", which);
		return (1);
	}
	return (0);
}
int main(int argc, char **argv)
{
	int bad = 0;
	nng_init(NULL);
	if (scenario('C', 45681) != 0) { printf("control failed\n"); return (2); }
	if (argc < 2 || argv[1][0] == 'A') bad |= scenario('A', 45682);
	if (argc < 2 || argv[1][0] == 'B') bad |= scenario('B', 45683);
	if (!bad) printf("ok\n");
	return (bad);
}
