/* D20: the block of a socket is returned to the pluggable allocator with size 0
 * (nni_sock_create never records s_size).  C03: "... returned to it, with the
 * size it was allocated with".  Public API only. */
#include <nng/nng.h>
#include <stdio.h>
#include <stdlib.h>
#include <string.h>
#define N 4096
static void  *ptr[N]; static size_t sz[N]; static int n, bad;
static void rec(void *p, size_t s) { if (p && n < N) { ptr[n] = p; sz[n++] = s; } }
static void *my_malloc(size_t s) { void *p = malloc(s); rec(p, s); return p; }
static void *my_calloc(size_t a, size_t b) { void *p = calloc(a, b); rec(p, a * b); return p; }
static void my_free(void *p, size_t s)
{
	for (int i = 0; p && i < n; i++)
		if (ptr[i] == p) {
			if (sz[i] != s) { printf("block of %zu bytes freed with size %zu\n", sz[i], s); bad++; }
			ptr[i] = NULL;
			break;
		}
	free(p);
}
int main(void)
{
	nng_init_params prm; memset(&prm, 0, sizeof(prm));
	prm.malloc_fn = my_malloc; prm.calloc_fn = my_calloc; prm.free_fn = my_free;
	if (nng_init(&prm) != 0) { printf("init failed\n"); return 2; }
	nng_socket s;
	if (nng_pair0_open(&s) != 0) return 2;
	nng_socket_close(s);
	nng_fini();
	printf("%s\n", bad ? "FAIL: sized-free clause violated" : "PASS");
	return bad != 0;
}
