/* urlparse_port_sign_space.c -- native demonstration (module urlparse, C19).
 *
 * nng_url_parse must accept a URL only if its port is well formed.  The port
 * text goes to nni_get_port_by_name(), which trusts strtol(): strtol skips
 * leading white space and takes a sign, so "tcp://host: 80", "tcp://host:+80"
 * and "tcp://host:-0" are accepted (RFC 3986: port = *DIGIT).
 *
 * build: gcc -I/repo/include -o /tmp/urlparse_port native/urlparse_port_sign_space.c \
 *            -L/repo/_build -lnng -Wl,-rpath,/repo/_build
 * run:   /tmp/urlparse_port
 * exit status 1 = defect present, 0 = absent
 */
#include <stdio.h>
#include <nng/nng.h>

int
main(void)
{
	static const char *bad[] = { "tcp://host: 80", "tcp://host:+80",
		"tcp://host:-0", "tcp://host:\t80/x", "http://host:+443/", NULL };
	static const char *good[] = { "tcp://host:80", "tcp://host:0",
		"tcp://host:65535", "http://host:http/x", NULL };
	int defect = 0;
	for (int i = 0; bad[i] != NULL; i++) {
		nng_url *u  = NULL;
		int      rv = nng_url_parse(&u, bad[i]);
		if (rv == 0) {
			printf("ACCEPTED ill-formed port: \"%s\" -> port %u\n",
			    bad[i], nng_url_port(u));
			defect = 1;
			nng_url_free(u);
		} else {
			printf("rejected \"%s\" (%s)\n", bad[i], nng_strerror(rv));
		}
	}
	for (int i = 0; good[i] != NULL; i++) {
		nng_url *u  = NULL;
		int      rv = nng_url_parse(&u, good[i]);
		if (rv != 0) {
			printf("UNEXPECTED: well-formed \"%s\" rejected (%s)\n",
			    good[i], nng_strerror(rv));
			defect = 1;
		} else {
			printf("ok \"%s\" -> port %u\n", good[i], nng_url_port(u));
			nng_url_free(u);
		}
	}
	return (defect);
}
