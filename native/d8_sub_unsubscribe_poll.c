#include <nng/nng.h>
#include <poll.h>
#include <stdio.h>
#include <string.h>
int main(void) {
    nng_socket pub, sub; int fd; char buf[16]; size_t sz;
    nng_init(NULL);
    nng_pub0_open(&pub); nng_sub0_open(&sub);
    nng_sub0_socket_subscribe(sub, "a", 1);
    nng_socket_get_recv_poll_fd(sub, &fd);
    nng_listen(pub, "inproc://d8", NULL, 0);
    nng_dial(sub, "inproc://d8", NULL, 0);
    nng_msleep(100);
    nng_send(pub, "abc", 3, 0);
    nng_msleep(100);
    struct pollfd p = { .fd = fd, .events = POLLIN };
    int r0 = poll(&p, 1, 0);
    nng_sub0_socket_unsubscribe(sub, "a", 1);   /* purges the queued message */
    nng_msleep(50);
    p.revents = 0;
    int r1 = poll(&p, 1, 0);
    sz = sizeof(buf);
    int rv = nng_recv(sub, buf, &sz, NNG_FLAG_NONBLOCK);
    printf("before unsubscribe: poll=%d; after unsubscribe: poll=%d (readable) but nng_recv(NONBLOCK) rv=%d (%s)\n", r0, r1, rv, nng_strerror(rv));
    return (r1 == 1 && rv == NNG_EAGAIN);
}
