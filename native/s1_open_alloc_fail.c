/* Suspect 1: a failed allocation inside nng_<proto>_open must give NNG_ENOMEM,
 * never a crash / hang / leak.
 *
 * For every protocol open function, and for k = 1, 2, ... the k-th allocation
 * made by the open call (first socket of the process) is failed.  Each trial
 * runs in a forked child so a crash is observed as a signal.
 *
 * Build:
 *   cc -g -I/repo/include -o /tmp/s1_open_alloc_fail \
 *      /verif/native/s1_open_alloc_fail.c -L/repo/_build -lnng -lpthread \
 *      -Wl,-rpath,/repo/_build
 * Run: /tmp/s1_open_alloc_fail
 *
 * Observed BEFORE the fix (HEAD f105161): k=1 is the socket block, k=2..5 are
 * the allocations of nni_msgq_init for s_uwq / s_urq in nni_sock_create, k=6
 * the socket id map (first socket only).  For the protocols with a built-in
 * context k=2..5 crash:
 *   req0             k=2 CRASH signal 11      (same for k=3,4,5)
 *   rep0 / sub0 / surveyor0 / respondent0: the same four lines each
 *   FAIL: 20 bad trials
 * (backtrace: nni_sock_open -> nni_sock_create -> sock_destroy ->
 * req0_sock_fini -> req0_ctx_fini -> nni_mtx_lock(0x368)).  The other
 * protocols (pub, push, pull, pair*, bus, all raw ones) do not crash on Linux
 * only because their sock_fini happens to survive a zero filled state.
 * Cause: nni_sock_create calls sock_destroy, which calls the protocol's
 * sock_fini because s_data != NULL, although sock_init never ran.
 *
 * Observed AFTER the fix (/repo 83e03ae): every k gives NNG_ENOMEM, no leak:
 *   sub0             k=6 failure tolerated, open succeeded
 *   bus0             k=6 failure tolerated, open succeeded
 *   bus0_raw         k=6 failure tolerated, open succeeded
 *   surveyor0        k=6 failure tolerated, open succeeded
 *   PASS: all injected failures gave a clean NNG_ENOMEM
 * (the "tolerated" ones are nni_lmq_init, documented to fall back to a
 * capacity of 2 when its buffer cannot be allocated).
 */
#include "../seeded/s37-req-ctxsend-idalloc-fail-keeps-lock/fa.h"

#include <sys/wait.h>

typedef int (*open_fn)(nng_socket *);
static const struct {
	const char *name;
	open_fn     fn;
} protos[] = {
	{ "req0", nng_req0_open },
	{ "req0_raw", nng_req0_open_raw },
	{ "rep0", nng_rep0_open },
	{ "rep0_raw", nng_rep0_open_raw },
	{ "pub0", nng_pub0_open },
	{ "pub0_raw", nng_pub0_open_raw },
	{ "sub0", nng_sub0_open },
	{ "sub0_raw", nng_sub0_open_raw },
	{ "push0", nng_push0_open },
	{ "push0_raw", nng_push0_open_raw },
	{ "pull0", nng_pull0_open },
	{ "pull0_raw", nng_pull0_open_raw },
	{ "pair0", nng_pair0_open },
	{ "pair0_raw", nng_pair0_open_raw },
	{ "pair1", nng_pair1_open },
	{ "pair1_raw", nng_pair1_open_raw },
	{ "pair1_poly", nng_pair1_open_poly },
	{ "bus0", nng_bus0_open },
	{ "bus0_raw", nng_bus0_open_raw },
	{ "surveyor0", nng_surveyor0_open },
	{ "surveyor0_raw", nng_surveyor0_open_raw },
	{ "respondent0", nng_respondent0_open },
	{ "respondent0_raw", nng_respondent0_open_raw },
};

// child exit codes
#define X_CLEAN 0      // allocation failed, open returned ENOMEM, no leak
#define X_DONE 10   // k is beyond the number of allocations
#define X_WRONGRV 11
#define X_LEAK 12
#define X_IGNORED 13 // allocation failed, open still succeeded (tolerated)

static int
trial(open_fn fn, long k)
{
	nng_socket s;
	int        rv, fired;

	fa_init(10);
	fa_where = "open";
	fa_arm(k);
	rv    = fn(&s);
	fired = fa_disarm();
	if (!fired) {
		nng_socket_close(s);
		return (X_DONE);
	}
	if (rv == 0) {
		fa_where = "close";
		nng_socket_close(s);
	}
	fa_where = "fini";
	nng_fini();
	if (rv != 0 && rv != NNG_ENOMEM) {
		printf("    open returned %d (%s)\n", rv, nng_strerror(rv));
		return (X_WRONGRV);
	}
	if (fa_live_blocks != 0) {
		printf("    %ld blocks (%ld bytes) leaked\n",
		    (long) fa_live_blocks, (long) fa_live_bytes);
		return (X_LEAK);
	}
	return (rv == 0 ? X_IGNORED : X_CLEAN);
}

int
main(void)
{
	int bad = 0;
	setvbuf(stdout, NULL, _IONBF, 0);
	for (unsigned p = 0; p < sizeof(protos) / sizeof(protos[0]); p++) {
		for (long k = 1; k < 200; k++) {
			int   st;
			pid_t pid = fork();
			if (pid == 0) {
				_exit(trial(protos[p].fn, k));
			}
			waitpid(pid, &st, 0);
			if (WIFSIGNALED(st)) {
				printf("%-16s k=%ld CRASH signal %d\n",
				    protos[p].name, k, WTERMSIG(st));
				bad++;
			} else if (WEXITSTATUS(st) == X_DONE) {
				printf("%-16s %ld allocations swept\n",
				    protos[p].name, k - 1);
				break;
			} else if (WEXITSTATUS(st) == X_IGNORED) {
				printf("%-16s k=%ld failure tolerated, open "
				       "succeeded\n",
				    protos[p].name, k);
			} else if (WEXITSTATUS(st) != X_CLEAN) {
				printf("%-16s k=%ld FAIL (%d)\n",
				    protos[p].name, k, WEXITSTATUS(st));
				bad++;
			}
		}
	}
	if (bad) {
		printf("FAIL: %d bad trials\n", bad);
		return (1);
	}
	printf("PASS: all injected failures gave a clean NNG_ENOMEM\n");
	return (0);
}
