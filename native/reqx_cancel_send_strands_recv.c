// REQ context: a request is submitted while no pipe is ready (it waits on the send queue) and a receive is
// started right away (accepted: "some users start receiving before waiting for the send notification",
// req0_ctx_cancel_recv).  Then the SEND is cancelled / times out: req0_ctx_cancel_send discards the request
// (req0_ctx_reset) but leaves ctx->recv_aio set (NNI_ASSERT(ctx->recv_aio == NULL) is compiled out in
// release builds, and would abort the process in a debug build).  The receive now waits for the reply of a
// request that no longer exists: it never completes (until its own timeout, a new request or close), and a
// second receive is refused.  (module reqx, unit req0_ctx_cancel_send_recvpending; C04/C02)
// build: cc -I/repo/include reqx_cancel_send_strands_recv.c -L/repo/_build -lnng -Wl,-rpath,/repo/_build -o /tmp/reqx_cs
#include <nng/nng.h>
#include <stdio.h>

int main(void)
{
	nng_socket req;
	nng_ctx    ctx;
	nng_aio   *saio, *raio;
	nng_msg   *msg;
	int        bad;

	nng_init(NULL);
	nng_req0_open(&req); // no peer: nothing can be sent
	nng_ctx_open(&ctx, req);
	nng_aio_alloc(&saio, NULL, NULL);
	nng_aio_alloc(&raio, NULL, NULL);
	nng_msg_alloc(&msg, 0);
	nng_aio_set_msg(saio, msg);
	nng_aio_set_timeout(saio, 100);                   // the send gives up after 100 ms
	nng_aio_set_timeout(raio, NNG_DURATION_INFINITE); // the receive waits for the reply
	nng_ctx_send(ctx, saio);
	nng_ctx_recv(ctx, raio);
	nng_aio_wait(saio);
	printf("send: %s, message back: %s\n", nng_strerror(nng_aio_result(saio)), nng_aio_get_msg(saio) != NULL ? "yes" : "no");
	nng_msleep(300);
	bad = nng_aio_busy(raio);
	printf("receive 300 ms after its request was abandoned: %s\n", bad ? "STILL PENDING (waits for a reply to a request that does not exist)" : nng_strerror(nng_aio_result(raio)));
	if (bad) {
		nng_aio_cancel(raio);
		printf("DEFECT REPRODUCED\n");
	} else {
		printf("ok\n");
	}
	nng_aio_wait(raio);
	nng_msg_free(nng_aio_get_msg(saio));
	nng_aio_free(saio);
	nng_aio_free(raio);
	nng_socket_close(req);
	return (bad);
}
