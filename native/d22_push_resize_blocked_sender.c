/* PUSH: growing NNG_OPT_SENDBUF while a sender is blocked leaves that sender blocked although the
 * buffer now has room (send poll fd readable, a LATER send is accepted at once), and the later
 * message overtakes the earlier one on the same connection.
 * build: cc -I/repo/include d22_push_resize_blocked_sender.c -L/repo/_build -lnng -Wl,-rpath,/repo/_build -o d22
 * exit status 1 = defect present */
#include <nng/nng.h>
#include <poll.h>
#include <stdio.h>
#include <string.h>
static nng_msg *mk(const char *s) { nng_msg *m; nng_msg_alloc(&m, 0); nng_msg_append(m, s, strlen(s) + 1); return (m); }
int main(void)
{
	nng_socket push, pull;
	nng_aio   *a1, *a2;
	int        fd;
	char       buf[16];
	size_t     sz;
	nng_init(NULL);
	nng_push0_open(&push);
	nng_pull0_open(&pull);
	nng_socket_set_ms(pull, NNG_OPT_RECVTIMEO, 1000);
	nng_socket_get_send_poll_fd(push, &fd);
	nng_aio_alloc(&a1, NULL, NULL);
	nng_aio_alloc(&a2, NULL, NULL);
	/* unbuffered, no peer: the first send blocks */
	nng_aio_set_msg(a1, mk("A"));
	nng_socket_send(push, a1);
	nng_msleep(50);
	int busy1 = nng_aio_busy(a1);
	/* room for four messages now */
	int rvopt = nng_socket_set_int(push, NNG_OPT_SENDBUF, 4);
	nng_msleep(50);
	struct pollfd p = { .fd = fd, .events = POLLIN };
	int writable = poll(&p, 1, 0);
	int still_blocked = nng_aio_busy(a1);
	/* a later send is accepted immediately */
	nng_aio_set_msg(a2, mk("B"));
	nng_socket_send(push, a2);
	nng_msleep(50);
	int b_done = !nng_aio_busy(a2) && nng_aio_result(a2) == 0;
	int a_blocked_after_b = nng_aio_busy(a1);
	/* one connection: what arrives first? */
	nng_listen(push, "inproc://d22", NULL, 0);
	nng_dial(pull, "inproc://d22", NULL, 0);
	sz = sizeof(buf); buf[0] = 0;
	int rv1 = nng_recv(pull, buf, &sz, 0);
	char first = buf[0];
	sz = sizeof(buf); buf[0] = 0;
	int rv2 = nng_recv(pull, buf, &sz, 0);
	char second = buf[0];
	printf("A blocked=%d; set SENDBUF=4 rv=%d; send fd readable=%d; A still blocked=%d; B accepted=%d while A blocked=%d; arrival order: %c(rv %d) %c(rv %d)\n",
	    busy1, rvopt, writable, still_blocked, b_done, a_blocked_after_b, first ? first : '-', rv1, second ? second : '-', rv2);
	return ((still_blocked && writable == 1) || first == 'B');
}
