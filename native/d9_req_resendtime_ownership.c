// D9: NNG_OPT_REQ_RESENDTIME changed between request and reply.
//   mode A: disabled at send time (request not cloned), enabled before the reply  => free of a message the transport already freed
//   mode B: enabled at send time (request cloned), disabled before the reply       => the retained copy is never freed (leak)
#include <nng/nng.h>
#include <stdio.h>
#include <stdlib.h>
#include <string.h>
int main(int argc, char **argv)
{
	int modeA = (argc < 2 || argv[1][0] == 'A');
	nng_socket req, rep; nng_msg *m; int rv;
	nng_init(NULL);
	nng_req0_open(&req); nng_rep0_open(&rep);
	if ((rv = nng_listen(rep, "tcp://127.0.0.1:45672", NULL, 0)) != 0) { printf("listen %s\n", nng_strerror(rv)); return 2; }
	if ((rv = nng_dial(req, "tcp://127.0.0.1:45672", NULL, 0)) != 0) { printf("dial %s\n", nng_strerror(rv)); return 2; }
	nng_socket_set_ms(req, NNG_OPT_REQ_RESENDTIME, modeA ? NNG_DURATION_INFINITE : 60000);
	nng_msg_alloc(&m, 0); nng_msg_append(m, "hello", 6);
	if ((rv = nng_sendmsg(req, m, 0)) != 0) { printf("send %s\n", nng_strerror(rv)); return 2; }
	if ((rv = nng_recvmsg(rep, &m, 0)) != 0) { printf("rep recv %s\n", nng_strerror(rv)); return 2; }
	nng_msleep(100); // request is on the wire and released by the transport
	rv = nng_socket_set_ms(req, NNG_OPT_REQ_RESENDTIME, modeA ? 60000 : NNG_DURATION_INFINITE);
	printf("option changed: %d\n", rv);
	nng_msg_clear(m); nng_msg_append(m, "world", 6);
	if ((rv = nng_sendmsg(rep, m, 0)) != 0) { printf("rep send %s\n", nng_strerror(rv)); return 2; }
	if ((rv = nng_recvmsg(req, &m, 0)) != 0) { printf("req recv %s\n", nng_strerror(rv)); return 2; }
	printf("reply: %s\n", (char *) nng_msg_body(m));
	nng_msg_free(m);
	nng_socket_close(req); nng_socket_close(rep);
	nng_fini();
	printf("done\n");
	return 0;
}
