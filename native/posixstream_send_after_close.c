/* posixstream module (C02 / C03), defect PS1: an operation submitted to a POSIX stream
 * connection AFTER it was closed is queued for ever instead of failing with NNG_ECLOSED.
 *
 * src/platform/posix/posix_tcpconn.c tcp_send()/tcp_recv() (same code in posix_ipcconn.c
 * ipc_send/ipc_recv and posix_sockfd.c sfd_send/sfd_recv): the aio is appended to
 * writeq/readq without looking at c->closed; tcp_dowrite()/tcp_doread() return at once on a
 * closed connection, the aio is "still first", so the poller is armed on a descriptor that
 * tcp_close() already shut down and removed from the poller (epoll_ctl fails, result
 * ignored).  Nothing ever completes the aio: tcp_close() already drained the queues.  The
 * Windows implementation (win_tcpconn.c tcp_send_start) completes it with NNG_ECLOSED, and
 * docs/ref/api/stream.md says operations against a closed stream result in NNG_ECLOSED.
 * Consequences: with the default (infinite) timeout nng_aio_wait() never returns; and when
 * the stream is then freed the aio still sits on the freed connection's queue with
 * tcp_cancel/c as its cancel function, so a later nng_aio_stop/abort of that aio calls
 * tcp_cancel() on freed memory (heap-use-after-free under ASan, second part of the demo).
 *
 * Failing CBMC obligation (units posixstream/tcp_send, tcp_recv and the ipc_/sfd_ twins,
 * unfixed tree): tcp_send.postcondition "closed connection: refused with NNG_ECLOSED, never
 * queued, the descriptor is not used".
 *
 * Build (against a build of /repo, e.g. cmake -S /repo -B /tmp/b_posixstream -G Ninja
 *        -DNNG_SANITIZER=address && ninja -C /tmp/b_posixstream nng):
 *   cc -g -fsanitize=address -I/repo/include -o /tmp/posixstream_send_after_close \
 *      /verif/native/posixstream_send_after_close.c -L/tmp/b_posixstream -lnng \
 *      -Wl,-rpath,/tmp/b_posixstream -lpthread
 * Run: /tmp/posixstream_send_after_close          (part 1: result code)
 *      /tmp/posixstream_send_after_close uaf      (part 2: free the stream, then stop the aio)
 * Before the fix (measured): part 1 prints "send after close: Timed out" / "recv after close: Timed
 *   out" (the 300 ms timeout of the
 *   demo fires; without a timeout it would hang) and exits 1; part 2 aborts (SIGABRT, exit 134): nng_aio_stop -> tcp_cancel ->
 *   nni_mtx_lock on the destroyed mutex of the freed connection -> nni_panic (with an ASan build
 *   of libnng the same access is reported as heap-use-after-free).
 * After the fix: "send after close: Object closed", "recv after close: Object closed",
 *   exit 0; part 2 exits 0.
 */
#include <stdio.h>
#include <string.h>

#include <nng/nng.h>

#define CHECK(x)                                                        \
	do {                                                                \
		int rv_ = (x);                                                  \
		if (rv_ != 0) {                                                 \
			printf("%s: %s\n", #x, nng_strerror(rv_));                  \
			return (2);                                                 \
		}                                                               \
	} while (0)

int
main(int argc, char **argv)
{
	nng_stream_dialer   *d;
	nng_stream_listener *l;
	nng_aio             *daio, *laio, *aio;
	nng_stream          *c1, *c2;
	nng_iov              iov;
	char                 buf[8] = "payload";
	char                 uri[64];
	int                  port;
	int                  bad = 0;
	int                  uaf = (argc > 1 && strcmp(argv[1], "uaf") == 0);

	CHECK(nng_init(NULL));
	CHECK(nng_aio_alloc(&daio, NULL, NULL));
	CHECK(nng_aio_alloc(&laio, NULL, NULL));
	CHECK(nng_aio_alloc(&aio, NULL, NULL));
	CHECK(nng_stream_listener_alloc(&l, "tcp://127.0.0.1"));
	CHECK(nng_stream_listener_listen(l));
	CHECK(nng_stream_listener_get_int(l, NNG_OPT_BOUND_PORT, &port));
	snprintf(uri, sizeof(uri), "tcp://127.0.0.1:%d", port);
	CHECK(nng_stream_dialer_alloc(&d, uri));
	nng_stream_dialer_dial(d, daio);
	nng_stream_listener_accept(l, laio);
	nng_aio_wait(daio);
	nng_aio_wait(laio);
	CHECK(nng_aio_result(daio));
	CHECK(nng_aio_result(laio));
	c1 = nng_aio_get_output(daio, 0);
	c2 = nng_aio_get_output(laio, 0);

	nng_stream_close(c1);

	iov.iov_buf = buf;
	iov.iov_len = sizeof(buf);
	nng_aio_set_iov(aio, 1, &iov);

	if (uaf) {
		/* default timeout: the operation can only end by completion or abort */
		nng_stream_send(c1, aio);
		nng_stream_free(c1); /* stop + free (the connection is reaped asynchronously) */
		nng_msleep(300);
		nng_aio_stop(aio); /* unfixed: aio still queued on the freed connection -> tcp_cancel(freed) */
		printf("send after close, stream freed, aio stopped: %s\n", nng_strerror(nng_aio_result(aio)));
	} else {
		nng_aio_set_timeout(aio, 300);
		nng_stream_send(c1, aio);
		nng_aio_wait(aio);
		printf("send after close: %s\n", nng_strerror(nng_aio_result(aio)));
		bad |= (nng_aio_result(aio) != NNG_ECLOSED);

		nng_aio_set_timeout(aio, 300);
		nng_stream_recv(c1, aio);
		nng_aio_wait(aio);
		printf("recv after close: %s\n", nng_strerror(nng_aio_result(aio)));
		bad |= (nng_aio_result(aio) != NNG_ECLOSED);
		nng_stream_free(c1);
	}
	nng_stream_free(c2);
	nng_aio_free(aio);
	nng_aio_free(daio);
	nng_aio_free(laio);
	nng_stream_listener_free(l);
	nng_stream_dialer_free(d);
	nng_fini();
	return (bad);
}
