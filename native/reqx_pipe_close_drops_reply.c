// REQ with resending disabled (NNG_OPT_REQ_RESENDTIME <= 0): the request has been ANSWERED (the reply is
// stored in the socket, or was already handed to the application), then the connection it was sent on closes.
// req0_pipe_close treats every context on the pipe's list as "request outstanding": it resets the context and
// latches conn_reset, because answered contexts stay on p->contexts (req0_recv_cb does not take them off).
//  (A) the stored, not yet received reply is freed and nng_recvmsg fails with NNG_ECONNRESET
//  (B) after a completed exchange a receive without a request fails with NNG_ECONNRESET instead of NNG_ESTATE
// (module reqx, units req0_pipe_close_N0_*; properties C12/C04)
// build: cc -I/repo/include reqx_pipe_close_drops_reply.c -L/repo/_build -lnng -Wl,-rpath,/repo/_build -o /tmp/reqx_pc
#include <nng/nng.h>
#include <stdio.h>
#include <string.h>

static int exchange(nng_duration resend, int recv_before_close)
{
	nng_socket req, rep;
	nng_msg   *m;
	char       url[64];
	static int n;
	int        rv, bad = 0;

	snprintf(url, sizeof(url), "inproc://reqx_pc_%d", n++);
	nng_req0_open(&req);
	nng_rep0_open(&rep);
	nng_socket_set_ms(req, NNG_OPT_REQ_RESENDTIME, resend);
	nng_socket_set_ms(req, NNG_OPT_RECVTIMEO, 1000);
	nng_socket_set_ms(rep, NNG_OPT_RECVTIMEO, 1000);
	nng_listen(rep, url, NULL, 0);
	nng_dial(req, url, NULL, 0);
	nng_msleep(100);
	nng_send(req, "ping", 5, 0);
	nng_recvmsg(rep, &m, 0);
	nng_sendmsg(rep, m, 0); // echo: the reply
	nng_msleep(100);        // the reply has arrived at the requester
	if (recv_before_close) {
		rv = nng_recvmsg(req, &m, 0);
		printf("  resend=%d: reply received before the close: rv=%d\n", (int) resend, rv);
		if (rv == 0) nng_msg_free(m);
	}
	nng_socket_close(rep); // the connection goes away AFTER the request was answered
	nng_msleep(100);
	rv = nng_recvmsg(req, &m, NNG_FLAG_NONBLOCK);
	if (recv_before_close) {
		printf("  resend=%d: (B) receive without a request after the close: rv=%d (%s), expected %d (%s)\n",
		    (int) resend, rv, nng_strerror(rv), NNG_ESTATE, nng_strerror(NNG_ESTATE));
		bad = (rv != NNG_ESTATE);
	} else {
		printf("  resend=%d: (A) receive of the stored reply after the close: rv=%d (%s), expected 0 with \"ping\"\n",
		    (int) resend, rv, nng_strerror(rv));
		bad = (rv != 0);
	}
	if (rv == 0) nng_msg_free(m);
	nng_socket_close(req);
	return (bad);
}

int main(void)
{
	int bad = 0;
	nng_init(NULL);
	printf("resending enabled (reference behaviour):\n");
	bad += exchange(60000, 0);
	bad += exchange(60000, 1);
	printf("resending disabled:\n");
	bad += exchange(0, 0);
	bad += exchange(NNG_DURATION_INFINITE, 0);
	bad += exchange(0, 1);
	bad += exchange(NNG_DURATION_INFINITE, 1);
	printf("%s\n", bad ? "DEFECT REPRODUCED" : "ok");
	return (bad != 0);
}
