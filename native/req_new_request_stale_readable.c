/* Native demonstration (public API): REQ socket, a reply has arrived and was NOT received (recv poll fd
 * readable), the application sends a NEW request.  req0_ctx_send -> req0_ctx_reset discards the unread reply
 * but did not clear the readable pollable: the recv poll fd keeps polling readable while
 * nng_recvmsg(NNG_FLAG_NONBLOCK) returns NNG_EAGAIN (C15 "if it polls readable that operation does not
 * return NNG_EAGAIN": busy loop).  The second request is deliberately never answered.
 * build: gcc -w req_new_request_stale_readable.c -I/repo/include -L/repo/_build -lnng -lpthread -o d
 * before the fix: "FAIL: recv fd readable but nng_recvmsg(NONBLOCK) = Try again", exit 1; after: "ok", exit 0 */
#include <nng/nng.h>
#include <poll.h>
#include <stdio.h>
#include <string.h>
static int readable(int fd) { struct pollfd p = { fd, POLLIN, 0 }; return poll(&p, 1, 0) == 1 && (p.revents & POLLIN); }
int main(void)
{
	nng_socket req, rep; nng_msg *m; int fd, rv;
	nng_init(NULL);
	nng_req0_open(&req); nng_rep0_open(&rep);
	nng_listen(rep, "inproc://reqstale", NULL, 0);
	nng_dial(req, "inproc://reqstale", NULL, 0);
	nng_socket_get_recv_poll_fd(req, &fd);
	nng_msg_alloc(&m, 0); nng_msg_append(m, "one", 3); nng_sendmsg(req, m, 0);
	nng_recvmsg(rep, &m, 0); nng_sendmsg(rep, m, 0); /* reply to request one */
	for (int i = 0; i < 200 && !readable(fd); i++) nng_msleep(10);
	if (!readable(fd)) { printf("setup: reply never became readable\n"); return 2; }
	/* new request without receiving the reply; the replier never answers it */
	nng_msg_alloc(&m, 0); nng_msg_append(m, "two", 3); nng_sendmsg(req, m, 0);
	nng_msleep(100);
	rv = nng_recvmsg(req, &m, NNG_FLAG_NONBLOCK);
	if (readable(fd) && rv == NNG_EAGAIN) { printf("FAIL: recv fd readable but nng_recvmsg(NONBLOCK) = %s\n", nng_strerror(rv)); return 1; }
	printf("ok: readable=%d rv=%d\n", readable(fd), rv);
	return 0;
}
